"""C17 - maneuver detectors compute their documented statistic over any history.

Explicit-state history explorer over the REAL detector objects of ``estimation/maneuver_detection.py`` (StandardNis,
SlidingNis, FadingMemoryNis), every transition being one real detector call, most of them made through the real
``SequentialFilter.checkManeuverDetection`` of a real ``UnscentedKalmanFilter`` whose ``innovation`` / ``innov_cvr`` are
set by the harness (that is exactly what ``UnscentedKalmanFilter.update`` does right before it calls the method).

Per work item (one detector configuration x one 5-symbol family of the step alphabet):

* breadth-first tree of EVERY innovation history of length <= D over the family (branching by ``copy.deepcopy`` of the
  real detector = "continued from history h");
* every tree node of depth <= D12 extended by every constant tail to length 12, every node of depth <= D50 to length 50
  (window eviction, fading steady state); a tail stops early only at a proved fixed point of the (state, input)
  transition (state before == state after bitwise with the same input: all remaining steps are the same transition);
* every leaf history replayed on a FRESH detector built by the real ``maneuverDetectionFactory`` from a real config
  object (differential oracle "continued == fresh", bitwise), likewise the long tails of the shallow nodes;
* reference detector (``verif/oracles/c17_ref.py``: plain lists, statistic recomputed from the whole history, Cholesky
  quadratic form, chi-square bound from the incomplete gamma inverse) in lock step.

Plus three lattice items: the two functions of ``physics/statistics.py`` directly, exact ties ``metric == bound``
(dyadic arithmetic, "reaches the bound" = detection), and constructor defaults / the no-detector branch.

Reporting layer ("... and reports that statistic as its metric"): what the library reports for a declared maneuver is
the ``DetectedManeuver`` record that ``EstimateAgent.update`` builds.  (a) In the unit-1 explorer items the transitions
of the tree (and steps 12 / 50 of the tails) are repeated through a real ``EstimateAgent`` around a ``_ScriptedUKF``
(real UKF, ``update`` reduced to the last lines of ``UnscentedKalmanFilter.update`` with the explorer's innovation),
serially and through ``EstUpdateRegistration`` + ``asyncUpdateEstimate`` over the in-process ray; (b) items ``real`` run
a fully real agent (factory-built UKF + detector, real observations of varying dimension, a burn in the truth) and
recompute the documented statistic from the history of the filter's own innovations.  Every record: nis = single-step
statistic, metric = the detector's documented statistic, threshold, method, sensor ids, epoch, target; one record
exactly when a maneuver was declared.

Adaptive estimation (items ``mmae``): histories in which the filter that carries the detector is replaced by a real
``StaticMultipleModel`` / ``GeneralizedPseudoBayesian1`` (real factory, ``initialize``, ``_createModels``, ``update``,
prune / gate, ``_resumeSequentialFiltering``) and handed back as ``converged_filter``: at every detector call before,
inside and after adaptive estimation the decision / metric equal the reference statistic over the documented history
(every innovation evaluated for the target, in evaluation order) and the carried detector equals a fresh detector fed
that history - in particular at the hand-back and for the w steps after it.

Unit dimension (the statistic nu^T S^-1 nu has no unit): every explorer item carries a unit u; all its innovations are
expressed in that unit (nu -> u nu, S -> u^2 S; kind-M covariances: only the first block).  The old families run at
u = 1; the families FC* (strongly correlated covariances: every pairwise correlation >= 0.9, and block-diagonal
mixed-unit ones) run at every unit of the tier, each against the reference on the very floats it was given, and
``finalize`` compares the runs of one (configuration, family) across units step by step (same decisions, same metric to
rounding).  The statistics / defaults lattices run at seven units (1e-9 .. 1e6, incl. 1 arc-second in radians).
"""
from __future__ import annotations

import copy
import math
import pickle
from collections import deque
from datetime import datetime

import numpy as np

from verif import framework as fw
from verif import scen  # noqa: F401  installs the in-process fake ray before resonaate is imported
from verif.oracles import c17_ref as ref

from resonaate.agents.estimate_agent import EstimateAgent
from resonaate.data import setDBPath
from resonaate.data.observation import Observation
from resonaate.dynamics.two_body import TwoBody
from resonaate.estimation import maneuverDetectionFactory, sequentialFilterFactory
from resonaate.estimation.kalman.unscented_kalman_filter import UnscentedKalmanFilter
from resonaate.estimation.maneuver_detection import FadingMemoryNis, SlidingNis, StandardNis
from resonaate.estimation.sequential_filter import EstimateSource, FilterFlag
from resonaate.parallel.estimate_prediction import EstPredictRegistration, asyncPredict
from resonaate.parallel.estimate_update import EstUpdateRegistration, asyncUpdateEstimate
from resonaate.physics.measurements import Measurement
from resonaate.physics.statistics import chiSquareQuadraticForm, oneSidedChiSquareTest
from resonaate.physics.time.stardate import ScenarioTime
from resonaate.scenario.clock import ScenarioClock
from resonaate.scenario.config.estimation_config import (
    FadingMemoryNISConfig,
    SlidingNISConfig,
    StandardNISConfig,
    UKFConfig,
)

PROPERTY = "C17"
LEVEL = "model_checking"
RULE = (
    "per (detector kind, threshold, window/delta) x 5-symbol family of the step alphabet {dim 1,2,3,8} x {NIS level 0, "
    "0.5b, b(1-1e-6), b(1+1e-6), 10b of the single-step bound b; B(1-1e-6), B(1+1e-6) of the detector's OWN bound B "
    "given the history so far} x {identity, full SPD covariance}: every history of length <= D breadth-first on the real "
    "detector, every node of depth 0..D12 / 0..D50 extended by every constant tail to length 12 / 50 (a tail repeating "
    "the node's last symbol is its parent's tail and is run once; tail steps that re-walk a tree node are evaluated "
    "but not counted), every leaf and the shallow long tails replayed on a fresh factory-built detector; one "
    "evaluation of 'decision' = one detector step of one history. non-trivial = the history up to that step contains a dimension change, or a step whose statistic "
    "is within 2e-6 (relative) of its bound, or (sliding) is longer than the window; distinct by construction "
    "(distinct histories of distinct detector configurations). states = distinct canonical detector states "
    "(all attributes: window contents / accumulated sums / metric) per work item, summed; transitions = real detector "
    "calls; traces = histories (leaf, prefix+tail, fresh replay) validated end to end. UNITS: every explorer item has a "
    "unit u and feeds (u nu, u^2 S); families F0..F5 run at u = 1, families FC0/FC1 (covariance kinds C = every pairwise "
    "correlation 0.9..0.99, M = two such blocks, the first in unit u and the second in unit 1, S, I) run at every unit "
    "of the tier {1e-6, 1e-3, 1, 1e3} (thorough: also 1e-9, 1e6; D = 5 there) with the same configurations at every unit; "
    "units/invariance (finalize) = one case per (configuration, family, unit != 1): all tree steps and root tails "
    "give the decisions and (to 2.1e-11) the metrics of the u = 1 run. The stat lattice (quadratic form: dim 1..8 x "
    "kinds I,S,C,M,W x 4 magnitudes x 2 signs; W = every pairwise correlation 1e-6) and the defaults lattice (7 "
    "detectors x 21 steps x kinds S,C,M,W) run at "
    "the units {1e-9, 1e-6, 1 arcsec = 4.848e-6, 1e-3, 1, 1e3, 1e6}; exact ties at the units 2^-20, 1, 2^10. "
    "REPORTING LAYER ('reports that statistic as its metric' = the DetectedManeuver record built by "
    "EstimateAgent.update): (a) in every unit-1 explorer item the transition of a tree step of dimension >= 2 is "
    "repeated through a real EstimateAgent around a real UKF whose update() keeps only the last lines of "
    "UnscentedKalmanFilter.update (harness innovation, real nis, real checkManeuverDetection): every declared maneuver "
    "and every 4th nominal step of the histories of length <= 3, every 3rd of those of the longer ones, and step 12 "
    "/ 50 of every constant tail that starts at depth <= 3; every 4th (tails: every 2nd) through the job path "
    "EstUpdateRegistration + asyncUpdateEstimate over the in-process ray; sensor sets of 1 / 2 / 3 / 1 sensors "
    "rotating; (b) items 'real': per detector configuration (quick: the standard detector and every window / delta at "
    "one threshold each; thorough: all) x burn {0, 0.42, 2.8 m/s at step 5} x {serial, job path}: 14 steps of a fully "
    "real agent (factory-built UKF and detector, real Observations of 2 / 3 / 4 dimensions from 1..3 sensors stacked "
    "to 2..8, one step without observation; the seed rotates the observation pattern), reference statistic recomputed "
    "from the whole history of the filter's own innovation / innov_cvr.  One evaluation of 'report/*' = one field "
    "group of one record (count, metric, nis, threshold, reaches its bound, method, sensor ids, epoch + target); "
    "non-trivial for metric / nis / reaches_bound = the detector's statistic differs from the single-step NIS by more "
    "than 1e-3 (relative), for count = a maneuver was declared, for sensor ids = more than one sensor. "
    "ADAPTIVE ESTIMATION (items 'mmae'; the filter that carries the detector is replaced and handed back): per "
    "estimator {SMM, GPB1} x detector configuration (standard as memory-less control, every window 1,2,4,10, every "
    "delta; quick: one threshold each, thorough: all) the complete lattice {2, 3 models} x {0, 2 nominal steps before "
    "the maneuver} x {1, 2, 3 observed steps inside adaptive estimation}, closing mode (SMM: prune below 1e-10 / one "
    "model >= 0.997 and gate; GPB1: gate), one unobserved step inside or after, a pickle round trip of the adaptive / "
    "converged filter (job path) and the (dimension 2,3,4,8; covariance S,C) sequence rotating over the lattice: real "
    "UKF (real predict; update reduced to its last lines on scripted innovations, as the scripted agent) detects -> "
    "real adaptiveEstimationFactory + initialize (database query and Lambert targeting replaced) -> real _createModels "
    "-> real SMM/GPB1 update (weights, prune, gate) on model NIS chosen to keep it open / close it -> real "
    "_resumeSequentialFiltering -> w + 2 (standard / fading: 5) steps on converged_filter at the statistic levels "
    "{0, 0.3, 0.5, 0.7, 0.9, 1 -+ 1e-6, 2} x the detector's own bound given the DOCUMENTED history = every innovation "
    "evaluated for the target in evaluation order (nominal steps, one entry per model per observed step inside, "
    "converged steps; nothing skipped or repeated when the filter object changes). One evaluation of 'mmae/*' = "
    "decision / metric of one detector call (inside: decision of every model's call, metric of the last call and of "
    "declared maneuvers) or one comparison of the carried detector's complete state with a fresh detector given the "
    "documented history (after every step and at the hand-back before any further step); non-trivial = detector with "
    "memory, call inside or after adaptive estimation."
)
ASSUMPTIONS = [
    "adaptive estimation: the filters of one target share one detector (the adaptive filter hands its own detector to "
    "every model filter and the converged filter continues the target's maneuver detection), so the documented history "
    "of that detector is every innovation evaluated for the target in evaluation order, one entry per model filter per "
    "observed step inside adaptive estimation; the hypothesis states / database queries of initialize() are replaced "
    "(subject of C18), the model and converged filters are real UKFs whose observed update keeps only its last lines "
    "on scripted innovations (posterior = prior), their predict and unobserved update are real",
    "scipy.special.gammainccinv/gammaincc (validated against each other) are the chi-square reference",
    "documented degrees of freedom: n_k (standard), sum of the last w dimensions (sliding), "
    "mean(dimensions so far)*(1+delta)/(1-delta) (fading memory, the code's comment for time-varying dimension)",
    "covariances of the lattice have condition number < 1e3, so an inverse-based and a Cholesky-based quadratic form "
    "agree to < 1e-12 relative; decisions with |metric/bound - 1| <= 1e-9 are classified either-way, except exact "
    "dyadic ties where both sides are computed without rounding",
    "innovations are 1-D arrays, as UnscentedKalmanFilter.update produces them",
    "reporting layer: the documented content of a DetectedManeuver is its column docstrings (nis = NIS at the time of "
    "the detection, metric = maneuver metric, threshold = threshold the maneuver was tested against, method = detector "
    "class, sensor_list = the sensors of the step); the scripted UKF replaces only the part of update() that produces "
    "innovation and innov_cvr (subject of the filter properties); real runs: correlation matrix of innov_cvr has "
    "condition < 1e5 (checked per step), tolerance 1e-9",
    "a change of unit multiplies innovation and covariance entries by non-dyadic factors: the reference is evaluated on "
    "the very floats handed to the code under test, so no extra tolerance is needed per run; mixed-unit (kind M) "
    "covariances are block diagonal and their unit ratio is kept within 1e-6..1e6 (covariance ratio <= 1e12, "
    "numerically non-singular for scipy.linalg.inv), their factorisation/inverse is block-wise exact in the zeros so "
    "the error is that of the worse block",
]
EXPECT_MIN_NONTRIVIAL = 20000

EPS = 1e-6  # near-bound levels: relative distance of the statistic from the bound
EITHER = 1e-9  # decisions closer than this (relative) to the bound may go either way (rounding of inv / isf / sums)
# metric tolerance: forward error of v^T inv(S) v is <= ~ n * cond(S) * 2^-53 * small constant <= 8 * 1e3 * 1.1e-16 * 4
# ~ 3.5e-12 in the very worst case (typical lattice matrices: cond < 60 -> 3e-14); sums of <= 50 positive terms add
# 50 * 1.1e-16.  1e-11 keeps >= 5 orders of margin to the smallest defect to expose (EPS = 1e-6).
MTOL = 1e-11

STANDARD, SLIDING, FADING = ref.STANDARD, ref.SLIDING, ref.FADING
THRESHOLDS = (0.001, 0.05, 0.5)
WINDOWS = (1, 2, 4, 10)
DELTAS = (0.1, 0.8, 0.99)
B_LEVELS = ("Bbelow", "Babove")
ARCSEC = 4.84813681109536e-6  # one arc-second in radians
# units of the direct lattices (stat, misc): covariance entries from 1e-18 to 1e12
UNITS_LATTICE = (1.0, 1e-9, 1e-6, ARCSEC, 1e-3, 1e3, 1e6)
TIE_UNITS = (1.0, 2.0**-20, 2.0**10)  # exact (dyadic) changes of unit for the exact ties
M_UNIT_RANGE = (1e-6, 1e6)  # the first block of a kind-M covariance is expressed in the unit clipped to this range
UTOL = 2.1  # units/invariance: |m_u - m_1| <= |m_u - r_u| + |r_u - r_1| + |r_1 - m_1| <= MTOL + 1e-13 + MTOL (r = reference;
# r_u, r_1 differ by the rounding of the realised innovations only: a few ulp per step, sums of positive terms)

# (dim, level, covariance) families of five symbols; every family mixes dimensions (except F3, the constant-dimension
# control) and contains levels tied to the single-step bound and to the detector's own bound
FAMILIES = {
    "F0": ((1, "half", "I"), (2, "Bbelow", "S"), (3, "Babove", "I"), (8, "x10", "S"), (2, "zero", "I")),
    "F1": ((8, "Bbelow", "I"), (1, "Babove", "S"), (3, "below", "S"), (2, "above", "I"), (1, "half", "S")),
    "F2": ((3, "below", "I"), (3, "above", "S"), (8, "zero", "S"), (1, "x10", "I"), (8, "Babove", "S")),
    "F3": ((2, "half", "S"), (2, "Bbelow", "S"), (2, "Babove", "S"), (2, "x10", "S"), (2, "zero", "S")),
    "F4": ((8, "half", "I"), (3, "x10", "S"), (1, "Bbelow", "I"), (2, "Babove", "S"), (3, "zero", "I")),
    "F5": ((1, "below", "S"), (8, "above", "I"), (2, "half", "I"), (3, "Bbelow", "S"), (8, "x10", "I")),
    # unit families: strongly correlated (C) and block-diagonal mixed-unit (M) covariances, run at every unit of the tier
    "FC0": ((2, "Bbelow", "C"), (3, "Babove", "M"), (8, "half", "C"), (1, "x10", "C"), (2, "below", "S")),
    "FC1": ((3, "below", "C"), (2, "above", "C"), (8, "Babove", "C"), (4, "zero", "M"), (8, "Bbelow", "M")),
}
TIERS = {
    # families, depth D, tails to 12 from depth <= D12, tails to 50 from depth <= D50, fresh long-tail replays <= DF;
    # unit families x units: the same four bounds as "unit_depths" (thorough: one level shallower than the unit-1
    # families, 2 x 6 x 8 more explorer items have to fit the thorough budget)
    "quick": {"families": ("F0", "F1", "F2"), "D": 4, "D12": 3, "D50": 2, "DF": 1,
              "unit_families": ("FC0",), "units": (1.0, 1e-6, 1e-3, 1e3), "unit_depths": (4, 3, 2, 1)},
    "thorough": {"families": ("F0", "F1", "F2", "F3", "F4", "F5"), "D": 6, "D12": 4, "D50": 3, "DF": 2,
                 "unit_families": ("FC0", "FC1"), "units": (1.0, 1e-9, 1e-6, 1e-3, 1e3, 1e6), "unit_depths": (5, 4, 3, 1)},
}
_EMPTY: dict = {}


class _RealCallError(Exception):
    """The code under test raised: reported as a violation of the property, not as a harness error."""


def _real(fn, *args, **kwargs):
    try:
        return fn(*args, **kwargs)
    except Exception as exc:  # noqa: BLE001
        raise _RealCallError(f"{type(exc).__name__}: {exc} (in {getattr(fn, '__qualname__', type(fn).__name__)})") from exc


def _f(val):
    """float(val) or None if the value is not a scalar number."""
    try:
        return float(val)
    except (TypeError, ValueError):
        return None


# ------------------------------------------------------------------------------------------------ items
def _configs():
    out = [(STANDARD, a, None) for a in THRESHOLDS]
    out += [(SLIDING, a, w) for a in THRESHOLDS for w in WINDOWS]
    out += [(FADING, a, d) for a in THRESHOLDS for d in DELTAS]
    return out


def _config_in_family(tier, fi, kind, alpha, param):
    """thorough: every configuration on every family.  quick: every configuration on the first family; on the other
    families every window / delta with ONE threshold each (rotating), to stay inside the quick budget."""
    if tier != "quick" or fi == 0:
        return True
    pi = WINDOWS.index(param) if kind == SLIDING else DELTAS.index(param) if kind == FADING else 0
    return THRESHOLDS.index(alpha) == (pi + fi) % len(THRESHOLDS)


def _config_in_unit_family(fi, kind, alpha, param):
    """Unit families: every window / delta (and the standard detector) with ONE threshold each (rotating with the
    family); the SAME configurations at every unit, so that every (configuration, family) exists at every unit."""
    pi = WINDOWS.index(param) if kind == SLIDING else DELTAS.index(param) if kind == FADING else 0
    return THRESHOLDS.index(alpha) == (pi + fi + 1) % len(THRESHOLDS)


def _explore_items(tier, seed):
    t = TIERS[tier]
    out = []
    for fi, fam in enumerate(t["families"]):
        for kind, alpha, param in _configs():
            if _config_in_family(tier, fi, kind, alpha, param):
                out.append(("explore", kind, alpha, param, fam, t["D"], t["D12"], t["D50"], t["DF"], seed, 1.0))
    for fi, fam in enumerate(t["unit_families"]):
        for unit in t["units"]:
            for kind, alpha, param in _configs():
                if _config_in_unit_family(fi, kind, alpha, param):
                    out.append(("explore", kind, alpha, param, fam, *t["unit_depths"], seed, unit))
    return out


def _real_items(tier, seed):
    """Fully real agent runs.  thorough: every detector configuration; quick: the standard detector and every window /
    delta with ONE threshold each (rotating, as for the unit families)."""
    return [("real", kind, alpha, param, seed) for kind, alpha, param in _configs()
            if tier != "quick" or _config_in_unit_family(0, kind, alpha, param)]


def items(tier, seed):
    light, heavy = [], []
    for it in _explore_items(tier, seed):
        cheap = it[1] == STANDARD or (it[1] == SLIDING and it[3] <= 2)
        (light if cheap else heavy).append(it)
    # heavy items first (longest first: fading, then wide windows) so the pool drains evenly; the runner re-runs item 0
    # and the middle item serially for its determinism check, so those two slots get cheap items
    # (deepest first: in the thorough tier the unit families are one level shallower)
    heavy.sort(key=lambda it: (-it[5], it[1] != FADING, -(it[3] if it[1] == SLIDING else 0)))
    extra = [("stat", seed), ("tie", seed), ("misc", seed)] + _real_items(tier, seed) + _mmae_items(tier, seed)
    out = [light[0]] + heavy + extra + light[1:]
    mid = len(out) // 2
    if out[mid] in heavy:
        j = out.index(light[1])
        out[mid], out[j] = out[j], out[mid]
    return out


def bounds(tier, seed):
    t = TIERS[tier]
    return {
        "detector_configs": len(_configs()),
        "configs_per_family": {f: sum(_config_in_family(tier, fi, *c) for c in _configs()) for fi, f in enumerate(t["families"])},
        "configs_per_unit_family_at_every_unit": {
            f: [list(c) for c in _configs() if _config_in_unit_family(fi, *c)] for fi, f in enumerate(t["unit_families"])
        },
        "units_of_unit_families": t["units"],
        "units_of_direct_lattices": UNITS_LATTICE,
        "units_of_exact_ties": TIE_UNITS,
        "covariance_kinds": {
            "I": "identity",
            "S": "full SPD, condition < 1e3",
            "C": "every pairwise correlation +-rho, rho = 0.99 (dim 2), 0.97 (3), 0.95 (4), 0.9 (5..8)",
            "M": "block diagonal, two C blocks; first block in the item's unit (clipped to 1e-6..1e6), second in unit 1",
            "W": "as C with rho = 1e-6 (direct lattices only)",
        },
        "explore_items": len(_explore_items(tier, seed)),
        "reporting_layer": {
            "scripted_agent_steps": "unit-1 explorer items; tree steps of dimension >= 2: all detections + every 4th nominal "
            f"step up to depth {REPORT_FULL_DEPTH}, every 3rd of those deeper; tail steps 12 and 50 of tails starting at depth "
            f"<= {REPORT_FULL_DEPTH}; job path every 4th tree step / every 2nd tail step",
            "scripted_sensor_sets": [list(x) for x in SCRIPT_SENSOR_SETS],
            "real_items": [list(x[1:4]) for x in _real_items(tier, seed)],
            "real_steps": REAL_STEPS,
            "real_dt_s": REAL_DT,
            "real_burns_km_s": REAL_BURNS,
            "real_burn_step": REAL_BURN_STEP,
            "real_paths": ["serial EstimateAgent.update", "EstUpdateRegistration + asyncUpdateEstimate"],
            "real_observation_pattern": ["+".join(k) or "none" for k in REAL_PATTERN],
            "real_pattern_rotation": int(seed) % len(REAL_PATTERN),
            "real_rel_tol": REAL_TOL,
            "real_max_condition_of_innovation_correlation": REAL_COND_MAX,
            "epoch_tol_days": JD_TOL,
            "columns_distinguishable_when_rel_difference_gt": DISTINCT,
        },
        "adaptive_estimation": {
            "items": [list(x[1:5]) for x in _mmae_items(tier, seed)],
            "estimators": MMAE_ESTIMATORS,
            "models": MMAE_MODELS,
            "nominal_steps_before_the_maneuver": MMAE_PRE,
            "observed_steps_inside": MMAE_K,
            "closing_modes": {"smm": ["prune", "gate"], "gpb1": ["gate"]},
            "prune_threshold": MMAE_PRUNE_THRESHOLD,
            "prune_percentage": MMAE_PRUNE_PERCENTAGE,
            "model_nis_open": MMAE_NIS_OPEN,
            "model_nis_closing_first_and_other_models": {k: list(v) for k, v in MMAE_NIS_CLOSE.items()},
            "shapes_rotating": [list(x) for x in MMAE_SHAPES],
            "fractions_of_own_bound_before": list(MMAE_PRE_FRACTIONS) + [10.0],
            "fractions_of_own_bound_after_handback_rotating": MMAE_POST_FRACTIONS,
            "steps_after_handback": "window + 2 (sliding), 5 (standard, fading), plus one unobserved step inside or after",
            "pickle_round_trip": "adaptive filter before its 2nd/3rd step (rotation % 3 == 1), converged filter (rotation % 3 == 2)",
            "traces_per_item": len(MMAE_MODELS) * len(MMAE_PRE) * len(MMAE_K),
            "documented_history": "every innovation evaluated for the target in evaluation order: nominal filter, every model "
            "filter (list order) per observed step inside adaptive estimation, converged filter",
            "replaced": "fetchObservationsByJDInterval, _calculateNominalStates, _generateHypothesisManeuvers, "
            "_generateHypothesisStates (database / Lambert targeting: not this property)",
        },
        "thresholds": THRESHOLDS,
        "windows": WINDOWS,
        "deltas": DELTAS,
        "families": {f: [list(s) for s in FAMILIES[f]] for f in t["families"] + t["unit_families"]},
        "depth_all_histories": t["D"],
        "tails_to_12_from_depth_le": t["D12"],
        "tails_to_50_from_depth_le": t["D50"],
        "fresh_long_tail_replays_from_depth_le": t["DF"],
        "unit_families_depths_D_D12_D50_DF": t["unit_depths"],
        "narrowed": "quantifier 'all sequences of length 1..50' -> all sequences of length <= D over 5-symbol families "
        "plus constant tails to 12/50; continuous thresholds/deltas -> the listed values; positive-definite covariances "
        "-> four kinds (condition < 1e3 at unit scale) x the listed units; seed shifts the phase of the covariances and "
        "of the innovation direction only",
        "eps_near_bound": EPS,
        "either_way_window": EITHER,
        "metric_rel_tol": MTOL,
        "unit_invariance_rel_tol": UTOL * MTOL,
    }


# ------------------------------------------------------------------------------------------------ real objects
def _make_real(kind, alpha, param, via_config):
    if via_config:
        if kind == STANDARD:
            cfg = StandardNISConfig(threshold=alpha)
        elif kind == SLIDING:
            cfg = SlidingNISConfig(threshold=alpha, window_size=param)
        else:
            cfg = FadingMemoryNISConfig(threshold=alpha, delta=param)
        return _real(maneuverDetectionFactory, cfg)
    if kind == STANDARD:
        return _real(StandardNis, alpha)
    if kind == SLIDING:
        return _real(SlidingNis, alpha, window_size=param)
    return _real(FadingMemoryNis, alpha, delta=param)


def _make_ref(kind, alpha, param):
    return ref.RefDetector(kind, alpha, w=param if kind == SLIDING else None, delta=param if kind == FADING else None)


def _canon(det):
    """Every attribute of the detector object, as plain hashable values (bitwise identity of floats)."""
    out = []
    for name in sorted(vars(det)):
        val = getattr(det, name)
        if isinstance(val, deque):
            val = tuple(float(x) for x in val)
        elif val is None or isinstance(val, (bool, int, str)):
            pass
        else:
            try:
                val = float(val)
            except (TypeError, ValueError):
                val = repr(val)
        out.append((name, val))
    return tuple(out)


def _make_filter(adaptive=False, iod=False):
    return UnscentedKalmanFilter(
        10001,
        ScenarioTime(0.0),
        np.array([7000.0, 0.0, 0.0, 0.0, 7.5, 0.0]),
        np.eye(6),
        TwoBody(),
        np.eye(6) * 1e-9,
        maneuver_detection=None,
        initial_orbit_determination=iod,
        adaptive_estimation=adaptive,
    )


class _Filters:
    """Three real UKF objects (plain / adaptive estimation / orbit determination) x pre-existing flag states."""

    def __init__(self):
        plain, adapt, iod = _make_filter(), _make_filter(adaptive=True), _make_filter(iod=True)
        md = FilterFlag.MANEUVER_DETECTION
        self.variants = [
            ("plain", plain, FilterFlag.NONE, md),
            ("adaptive", adapt, FilterFlag.NONE, md | FilterFlag.ADAPTIVE_ESTIMATION_START),
            ("iod", iod, FilterFlag.NONE, md | FilterFlag.INITIAL_ORBIT_DETERMINATION_START),
            ("plain+close", plain, FilterFlag.ADAPTIVE_ESTIMATION_CLOSE, md),
            ("adaptive+started", adapt, FilterFlag.ADAPTIVE_ESTIMATION_START, md | FilterFlag.ADAPTIVE_ESTIMATION_START),
            ("iod+started", iod, FilterFlag.INITIAL_ORBIT_DETERMINATION_START, md | FilterFlag.INITIAL_ORBIT_DETERMINATION_START),
        ]

    def call(self, res, variant, det, vec, cov, mk, item=None):
        """One real transition through SequentialFilter.checkManeuverDetection; returns the decision."""
        name, flt, pre, add = self.variants[variant]
        flt.maneuver_detection = det
        flt._flags = pre  # what predict()/forecast() leave behind (NONE) or a flag raised earlier in the same step
        flt.innovation = vec
        flt.innov_cvr = cov
        flt.maneuver_detected = None  # sentinels: a stale value cannot pass for a fresh one
        flt.maneuver_metric = None
        _real(flt.checkManeuverDetection)
        got = flt.maneuver_detected
        is_bool = isinstance(got, (bool, np.bool_))
        res.case(
            "filter/maneuver_detected",
            mk(variant=name) if not is_bool else _EMPTY,
            is_bool,
            signature="C17/filter/maneuver_detected_not_set",
            observed=repr(got),
            expected="bool",
            item=item,
        )
        got = bool(got)
        want = (pre | add) if got else pre
        ok = flt.flags == want
        res.case(
            "filter/flags",
            mk(variant=name, detected=got) if (not ok or len(res.samples) < 2) else _EMPTY,
            ok,
            signature=f"C17/filter/flags/{name}/{'detected' if got else 'nominal'}",
            observed=str(flt.flags),
            expected=str(want),
            outcome=f"{name}:{'raised' if got else 'untouched'}",
            item=item,
        )
        if got:
            okm = _f(flt.maneuver_metric) is not None and _f(flt.maneuver_metric) == _f(det.metric)
            res.case(
                "filter/metric",
                mk(variant=name) if not okm else _EMPTY,
                okm,
                signature="C17/filter/maneuver_metric",
                observed=repr(flt.maneuver_metric),
                expected=repr(det.metric),
                item=item,
            )
        return got


# ------------------------------------------------------------------------------------------------ reporting layer
# "... and reports that statistic as its metric": what the library REPORTS for a declared maneuver is the
# DetectedManeuver record that EstimateAgent.update builds (EstimateAgent._handleManeuverDetection) from the filter
# attributes that checkManeuverDetection / UnscentedKalmanFilter.update leave behind.
METHOD_NAME = {STANDARD: "StandardNis", SLIDING: "SlidingNis", FADING: "FadingMemoryNis"}
REPORT_START = datetime(2021, 3, 30, 13, 36)
REPORT_TGT = 10001
REPORT_FULL_DEPTH = 3  # agent steps: all tree nodes up to this depth and the tails that start there; a third of the deeper ones
REPORT_STEP_S = 60.0  # scripted agent: the agent's epoch at history step n is n minutes after the start
# epoch of a record: Julian dates near 2.46e6 resolve 4.7e-10 day (4e-5 s); 1e-8 day (0.9 ms) is >= 5 orders below the
# smallest slip to expose (the epoch of a neighbouring step: 60 s = 6.9e-4 day)
JD_TOL = 1e-8
# the two reported columns can only be told apart where the detector's statistic differs from the single-step NIS
DISTINCT = 1e-3
SENSOR_ECI = {
    300000: (-1552.67475, 1473.6243, 5988.12597, -0.107453539, -0.114109571, 2.19e-04),
    300001: (4500.0, 2500.0, 3700.0, -0.18, 0.33, 0.0),
    300002: (6000.0, -1500.0, 1500.0, 0.1, 0.43, 0.02),
}
MEAS_LABELS = ("azimuth_rad", "elevation_rad", "range_km", "range_rate_km_p_sec")
MEAS_VAR = (2.4e-11, 3.7e-11, 9.0e-08, 3.6e-10)
# measurement kinds of one observation: O = optical (az, el), r = radar without range rate (3), R = radar (4)
MEAS_DIM = {"O": 2, "r": 3, "R": 4}
# sensor sets of the scripted agent steps (rotating with the history step): one sensor, two, three, one
SCRIPT_SENSOR_SETS = ((300000,), (300001, 300002), (300002, 300000, 300001), (300001,))

# fully real runs (item kind "real"): orbit, observation sets per step (rotated by the seed), burns
REAL_DT = 300.0
REAL_STEPS = 14
REAL_TRUTH_0 = (6878.0, 0.0, 0.0, 0.0, 5.3, 5.4)
REAL_EST_OFFSET = (0.05, -0.05, 0.05, 1e-4, -1e-4, 1e-4)
REAL_P0 = (1e-2, 1e-2, 1e-2, 1e-6, 1e-6, 1e-6)
REAL_PATTERN = (("O",), ("R",), ("O", "R"), (), ("R", "R"), ("O",), ("r",), ("r", "O", "r"), ("O",), ("R",), ("O", "O"),
                ("R",), ("r", "O"), ("O",))
REAL_BURN_STEP = 5
REAL_BURNS = (0.0, 3e-4, 2e-3)  # km/s on +y and -z velocity: none, 0.42 m/s, 2.8 m/s
# Real innovation covariances mix rad^2 and km^2 entries (ratio up to 1e10) but the quadratic form has no unit: what
# matters is the conditioning of the correlation matrix C = D^-1/2 S D^-1/2 (measured on this lattice: < 600; a step
# with cond(C) >= 1e5 is a harness error).  Forward error of v^T inv(S) v <= ~ n cond(C) 2^-53 * small constant
# <= 10 * 1e5 * 1.1e-16 * 10 ~ 1e-9; the slips to expose (a neighbouring statistic reported, a window entry or the
# (1 + delta) factor missing) are >= DISTINCT = 1e-3 relative: 6 orders of margin.
REAL_TOL = 1e-9
REAL_COND_MAX = 1e5


def _jd(dt_obj, seconds):
    """Julian date of ``dt_obj`` + seconds (own formula: days since J2000.0 = 2000-01-01T12:00 = JD 2451545)."""
    return 2451545.0 + ((dt_obj - datetime(2000, 1, 1, 12)).total_seconds() + seconds) / 86400.0


def _measurement(kind):
    n = MEAS_DIM[kind]
    return Measurement.fromMeasurementLabels(list(MEAS_LABELS[:n]), np.diagflat(MEAS_VAR[:n]))


class _ScriptedUKF(UnscentedKalmanFilter):
    """A real UKF whose ``update`` consists of the LAST lines of ``UnscentedKalmanFilter.update`` only, with the
    innovation and its covariance supplied by the harness: flags reset (``forecast``), source, ``innov_cvr``,
    ``innovation``, ``nis`` = the real quadratic form, the real ``checkManeuverDetection``.  Every attribute the
    EstimateAgent reads afterwards is written by real code."""

    verif_script = None

    def update(self, observations):
        if not observations:
            raise RuntimeError("harness: scripted update without observations")
        vec, cov = self.verif_script
        self._flags = FilterFlag.NONE
        self.source = EstimateSource.INTERNAL_OBSERVATION
        self.innov_cvr = cov
        self.innovation = vec
        self.nis = chiSquareQuadraticForm(vec, cov)
        self.checkManeuverDetection()


def _agent_update(agent, obs, job):
    """EstimateAgent.update (serial) or the parallel job path: EstUpdateRegistration + asyncUpdateEstimate through the
    in-process ray (pickled agent, updated filter and records handed back by processResults)."""
    if not job:
        agent.update(obs)
        return
    import ray  # noqa: PLC0415  (the in-process fake)

    reg = EstUpdateRegistration(agent, ray.put(agent), obs)
    reg.processResults(ray.get(asyncUpdateEstimate.remote(reg.generateSubmission())))


def _agent_predict(agent):
    """One prediction step of the agent's filter, the way the scenario does it (EstPredictRegistration + asyncPredict)."""
    import ray  # noqa: PLC0415  (the in-process fake)

    reg = EstPredictRegistration(agent)
    reg.processResults(ray.get(asyncPredict.remote(reg.generateSubmission())))


def _check_records(res, sub, kind, alpha, recs, got, nis_ref, metric_r, dof_r, bound_r, sensors, jd_want, tol, mk, item):
    """The DetectedManeuver records of ONE agent update against the documented content: exactly one record iff the
    detector declared a maneuver; nis = the step's normalised innovation squared, metric = the detector's documented
    statistic (the one that reached the bound of the reported threshold), threshold = configured significance, method
    = detector class, sensor ids = the distinct sensors of the step's observations, epoch and target of the step."""
    want_n = 1 if got else 0
    ok = len(recs) == want_n
    res.case(
        f"{sub}/count",
        mk(records=len(recs), detected=got) if (not ok or len(res.samples) < 2) else _EMPTY,
        ok,
        nontrivial=got,
        signature=f"C17/{kind}/report/count/{'missing' if len(recs) < want_n else 'spurious'}",
        observed=len(recs),
        expected=want_n,
        outcome=f"records:{want_n}",
        item=item,
    )
    distinct = abs(metric_r - nis_ref) > DISTINCT * max(abs(metric_r), 1e-300)
    for rec in recs:
        r_nis, r_metric, r_thr = _f(rec.nis), _f(rec.metric), _f(rec.threshold)
        okm = r_metric is not None and abs(r_metric - metric_r) <= tol * max(abs(metric_r), 1e-300)
        res.case(
            f"{sub}/metric",
            mk(single_step_nis=nis_ref, statistic=metric_r) if not okm else _EMPTY,
            okm,
            nontrivial=distinct,
            signature=f"C17/{kind}/report/metric",
            observed={"metric": r_metric, "nis": r_nis},
            expected={"metric": metric_r, "nis": nis_ref},
            outcome="distinct" if distinct else "coincide",
            item=item,
        )
        okn = r_nis is not None and abs(r_nis - nis_ref) <= tol * max(abs(nis_ref), 1e-300)
        res.case(
            f"{sub}/nis",
            mk(single_step_nis=nis_ref, statistic=metric_r) if not okn else _EMPTY,
            okn,
            nontrivial=distinct,
            signature=f"C17/{kind}/report/nis",
            observed={"metric": r_metric, "nis": r_nis},
            expected={"metric": metric_r, "nis": nis_ref},
            item=item,
        )
        okt = r_thr is not None and r_thr == alpha
        res.case(
            f"{sub}/threshold",
            mk() if not okt else _EMPTY,
            okt,
            signature=f"C17/{kind}/report/threshold",
            observed=r_thr,
            expected=alpha,
            item=item,
        )
        # the reported statistic reaches the bound of the REPORTED threshold at the documented degrees of freedom
        try:
            okb = r_metric is not None and r_thr is not None and 0.0 < r_thr < 1.0 and (
                r_metric >= ref.upper_tail_bound(r_thr, dof_r) * (1.0 - max(tol, EITHER))
            )
        except ArithmeticError:  # a reported threshold so extreme that the reference inverse cannot be validated
            okb = False
        res.case(
            f"{sub}/reaches_bound",
            mk(dof=dof_r, bound=bound_r) if not okb else _EMPTY,
            okb,
            nontrivial=distinct,
            signature=f"C17/{kind}/report/below_its_bound",
            observed={"metric": r_metric, "threshold": r_thr},
            expected={"metric_at_least": bound_r, "dof": dof_r},
            item=item,
        )
        okc = rec.method == METHOD_NAME[kind]
        res.case(
            f"{sub}/method",
            mk() if not okc else _EMPTY,
            okc,
            signature=f"C17/{kind}/report/method",
            observed=repr(rec.method),
            expected=METHOD_NAME[kind],
            item=item,
        )
        try:
            ids = sorted(int(x) for x in rec.sensor_list)
        except (TypeError, ValueError, AttributeError):
            ids = repr(rec.sensor_ids)
        oks = ids == sorted(set(sensors))
        res.case(
            f"{sub}/sensor_ids",
            mk(sensors=list(sensors)) if not oks else _EMPTY,
            oks,
            nontrivial=len(set(sensors)) > 1,
            signature=f"C17/report/sensor_ids/{len(set(sensors))}_sensors",
            observed=ids,
            expected=sorted(set(sensors)),
            outcome=f"sensors:{len(set(sensors))}",
            item=item,
        )
        r_jd = _f(rec.julian_date)
        oke = r_jd is not None and abs(r_jd - jd_want) <= JD_TOL and rec.target_id == REPORT_TGT
        res.case(
            f"{sub}/epoch_target",
            mk() if not oke else _EMPTY,
            oke,
            signature="C17/report/epoch_target",
            observed={"julian_date": r_jd, "target_id": rec.target_id},
            expected={"julian_date": jd_want, "target_id": REPORT_TGT},
            item=item,
        )
        res.observe(r_nis, r_metric, r_thr, rec.method, ids, r_jd)


def _fresh_db():
    scen.fresh()  # no actors / objects / cached DB interfaces: a ScenarioClock inserts its epochs on construction
    setDBPath("sqlite://")


class _Reporter:
    """One real EstimateAgent around a ``_ScriptedUKF``: every call is one real ``EstimateAgent.update`` (serial or job
    path) of a detector state taken from the explorer, with the explorer's innovation."""

    def __init__(self):
        _fresh_db()
        clock = ScenarioClock(REPORT_START, 60 * REPORT_STEP_S, REPORT_STEP_S)
        x0 = np.array([7000.0, 0.0, 0.0, 0.0, 7.5, 0.0])
        flt = _ScriptedUKF(REPORT_TGT, ScenarioTime(0.0), x0, np.eye(6), TwoBody(), np.eye(6) * 1e-9, maneuver_detection=None)
        self.agent = EstimateAgent(REPORT_TGT, "tgt", "Spacecraft", clock, x0, np.eye(6), flt, None, None, 10.0, 100.0, 0.21, seed=1)
        meas = _measurement("R")
        jd0 = _jd(REPORT_START, 0.0)
        self.obs_sets = [
            (ids, [Observation.fromMeasurement(jd0, REPORT_TGT, x0, sid, np.array(SENSOR_ECI[sid]), "AdvRadar", meas, noisy=False) for sid in ids])
            for ids in SCRIPT_SENSOR_SETS
        ]

    def step(self, res, ctx, det, sym, vec, nis_ref, metric_r, dof_r, bound_r, got_filter, state_filter, n, job, step_case):
        """``det`` (a private copy of the detector state BEFORE the step) goes through one agent update; the decision
        and the detector state afterwards must be those of the filter-level call of the same transition."""
        agent = self.agent
        flt = agent.nominal_filter
        flt.maneuver_detection = det
        flt.verif_script = (vec, sym.mat)
        flt.maneuver_detected = None  # sentinels, as in _Filters.call
        flt.maneuver_metric = None
        sensors, obs = self.obs_sets[(n + sym.idx) % len(self.obs_sets)]
        agent.time = ScenarioTime(REPORT_STEP_S * n)
        _real(_agent_update, agent, obs, job)
        ctx.transitions += 1
        flt = agent.nominal_filter  # the job path hands back another filter object
        recs = agent.getDetectedManeuvers()
        agent.getFilterSteps()
        got = bool(flt.maneuver_detected)
        path = "job" if job else "serial"

        def mk(**kw):
            return step_case(agent_path=path, **kw)

        ok = got == got_filter and _canon(flt.maneuver_detection) == state_filter
        res.case(
            "report/agent_vs_filter",
            mk() if (not ok or len(res.samples) < 2) else _EMPTY,
            ok,
            signature=f"C17/{ctx.kind}/differential/agent_vs_filter/{path}",
            observed={"detected": got, "state": repr(_canon(flt.maneuver_detection))},
            expected={"detected": got_filter, "state": repr(state_filter)},
            outcome=f"agent_{path}",
            item=ctx.item,
        )
        _check_records(res, "report", ctx.kind, ctx.alpha, recs, got_filter, nis_ref, metric_r, dof_r, bound_r, sensors,
                       _jd(REPORT_START, REPORT_STEP_S * n), MTOL, mk, ctx.item)


# ------------------------------------------------------------------------------------------------ symbols
def _m_unit(unit):
    return min(max(unit, M_UNIT_RANGE[0]), M_UNIT_RANGE[1])


def _covariance(kind, dim, phase, unit):
    """(covariance as list of lists expressed in ``unit``, unit of every component); condition of the unit-scale
    matrix < 1e3 is checked (a change of unit D S D does not change the conditioning of the quadratic form)."""
    base = ref.base_covariance(kind, dim, phase)
    cond = float(np.linalg.cond(np.array(base, dtype=float)))
    if not cond < 1e3:
        raise ArithmeticError(f"lattice covariance too ill-conditioned: {kind}{dim} {cond}")
    units = ref.component_units(kind, dim, _m_unit(unit) if kind == "M" else unit)
    return ref.in_units(base, units), units


class _Sym:
    __slots__ = ("idx", "dim", "level", "cov", "label", "mat", "low", "unit", "q0", "vec", "nis", "zero", "scaled")

    def __init__(self, idx, spec, alpha, phase, unit=1.0):
        self.idx = idx
        self.dim, self.level, self.cov = spec
        self.label = f"{self.dim}{self.level}{self.cov}"
        lst, units = _covariance(self.cov, self.dim, phase, unit)
        self.mat = np.array(lst, dtype=float)
        self.low = ref.cholesky_lower(lst)
        # direction of the innovation, every component in its own unit (no zero component)
        self.unit = [t * u for t, u in zip(ref.direction(self.dim, 0.61 * phase), units)]
        self.q0 = ref.quad_form_chol(self.unit, self.low)
        self.zero = np.zeros(self.dim)
        self.scaled = {}
        if self.level in B_LEVELS:
            self.vec, self.nis = None, None
        else:
            b1 = ref.upper_tail_bound(alpha, self.dim)
            target = {"zero": 0.0, "half": 0.5 * b1, "below": b1 * (1 - EPS), "above": b1 * (1 + EPS), "x10": 10.0 * b1}[self.level]
            self.vec, self.nis = self.make(target)

    def make(self, target_nis):
        if target_nis <= 0.0:
            return self.zero, 0.0
        s = math.sqrt(target_nis / self.q0)
        v = [s * u for u in self.unit]
        return np.array(v, dtype=float), ref.quad_form_chol(v, self.low)

    def realize(self, rdet):
        """Innovation of this symbol given the reference detector's history; returns (vector, reference NIS)."""
        if self.vec is not None:
            return self.vec, self.nis
        target = rdet.bound_after(self.dim) * ((1 - EPS) if self.level == "Bbelow" else (1 + EPS))
        return self.make(rdet.needed_nis(target))

    def scaled_input(self, vec, k):
        """(k * vec, reference NIS of k * vec)."""
        if self.vec is not None:
            hit = self.scaled.get(k)
            if hit is None:
                sv = k * vec
                hit = self.scaled[k] = (sv, ref.quad_form_chol([float(x) for x in sv], self.low))
            return hit
        sv = k * vec
        return sv, ref.quad_form_chol([float(x) for x in sv], self.low)


class _Ctx:
    def __init__(self, item):
        (_, self.kind, self.alpha, self.param, self.family, self.depth, self.d12, self.d50, self.dfresh, self.seed) = item[:10]
        self.unit = float(item[10]) if len(item) > 10 else 1.0  # replay files written before the unit dimension: unit 1
        self.item = tuple(item)
        phase = 0.37 * (int(self.seed) % 1000)
        self.syms = [_Sym(i, tuple(spec), self.alpha, phase + 0.11 * i, self.unit) for i, spec in enumerate(FAMILIES[self.family])]
        self.filters = _Filters()
        # the reporting layer does not depend on the unit of the innovation: agent steps in the unit-1 items only
        self.reporter = _Reporter() if self.unit == 1.0 else None
        self.states = set()
        self.transitions = 0
        # decisions / metrics of the tree steps and of the root tails, in enumeration order (compared across units)
        self.trace_on = False
        self.trace_d = []
        self.trace_m = []

    def base_case(self):
        return {"kind": self.kind, "alpha": self.alpha, "param": self.param, "family": self.family, "unit": self.unit}


class _Path:
    """Bookkeeping of what the history so far contains (for the non-trivial rule)."""

    __slots__ = ("hist", "last_dim", "dimchange", "near", "length")

    def __init__(self, hist=(), last_dim=None, dimchange=False, near=False, length=0):
        self.hist, self.last_dim, self.dimchange, self.near, self.length = hist, last_dim, dimchange, near, length

    def extend(self, label, dim, near_now):
        return _Path(
            self.hist + (label,),
            dim,
            self.dimchange or (self.last_dim is not None and dim != self.last_dim),
            self.near or near_now,
            self.length + 1,
        )


def _judge(res, ctx, sub, path, got, det_metric, metric_r, dof_r, bound_r, step_case, count=True):
    """Decision and metric of one real detector step against the reference."""
    near_now = abs(metric_r - bound_r) <= 2.0 * EPS * bound_r
    path.near = path.near or near_now
    nontriv = count and (path.dimchange or path.near or (ctx.kind == SLIDING and path.length > ctx.param))
    expected = metric_r >= bound_r
    if abs(metric_r - bound_r) <= EITHER * bound_r:
        res.either_way += 1
        ok, outcome = True, "either"
    else:
        ok = got == expected
        outcome = "detected" if expected else "nominal"
    need_case = (not ok) or len(res.samples) < 2
    res.case(
        f"{sub}/decision",
        step_case(metric=metric_r, bound=bound_r, dof=dof_r) if need_case else _EMPTY,
        ok,
        nontrivial=nontriv,
        signature=f"C17/{ctx.kind}/decision/{'missed_detection' if expected else 'false_detection'}",
        observed={"detected": got, "metric": _f(det_metric)},
        expected={"detected": expected, "metric": metric_r, "bound": bound_r, "dof": dof_r},
        outcome=outcome,
        item=ctx.item,
    )
    okm = _f(det_metric) is not None and abs(_f(det_metric) - metric_r) <= MTOL * max(abs(metric_r), 1e-300)
    res.case(
        f"{sub}/metric",
        step_case(metric=metric_r) if not okm else _EMPTY,
        okm,
        signature=f"C17/{ctx.kind}/metric",
        observed=_f(det_metric),
        expected=metric_r,
        item=ctx.item,
    )
    res.observe(got, _f(det_metric))
    if ctx.trace_on:
        ctx.trace_d.append("?" if outcome == "either" else "1" if got else "0")
        ctx.trace_m.append(_f(det_metric))


def _monotone(res, ctx, path, det_before, rdet_before, sym, vec, got, metric_got, step_case):
    """Scaling the latest innovation up never turns a detection into a non-detection (and never lowers the metric)."""
    for k in (1.5, 10.0):
        det4 = copy.deepcopy(det_before)
        svec, snis = sym.scaled_input(vec, k)
        r4 = bool(_real(det4, svec, sym.mat))
        ctx.transitions += 1
        m4 = _f(det4.metric)
        m2 = _f(metric_got)
        ok = ((not got) or r4) and m4 is not None and m2 is not None and m4 >= m2
        res.case(
            "monotone/decision",
            step_case(scale=k) if (not ok or len(res.samples) < 2) else _EMPTY,
            ok,
            nontrivial=got,
            signature=f"C17/{ctx.kind}/monotone",
            observed={"detected_scaled": r4, "metric_scaled": m4},
            expected={"detected": got, "metric": m2},
            outcome=f"{int(got)}->{int(r4)}",
            item=ctx.item,
        )
        m_ref = rdet_before.metric_after(snis)
        okm = m4 is not None and abs(m4 - m_ref) <= MTOL * max(abs(m_ref), 1e-300)
        res.case(
            "monotone/metric",
            step_case(scale=k) if not okm else _EMPTY,
            okm,
            signature=f"C17/{ctx.kind}/metric/scaled",
            observed=m4,
            expected=m_ref,
            item=ctx.item,
        )
        res.observe(r4, m4)


def _run_tail(res, ctx, det_node, rdet_node, path_node, tail_sym, length, record):
    """Constant tail from a tree node up to ``length`` steps of history; returns recorded steps if asked."""
    det = copy.deepcopy(det_node)
    rdet = rdet_node.copy()
    path = path_node
    rec = [] if record else None
    n = path.length
    before = _canon(det)
    while n < length:
        n += 1
        vec, nis = tail_sym.realize(rdet)
        want_mono = n in (12, 50)
        det_prev = copy.deepcopy(det) if want_mono else None
        rdet_prev = rdet.copy()
        metric_r, dof_r, bound_r = rdet.step(nis, tail_sym.dim)
        path = path.extend(tail_sym.label, tail_sym.dim, False)

        def step_case(_p=path, _n=n, **kw):
            c = ctx.base_case()
            c.update({"history": list(_p.hist), "step": _n, "phase": "tail", "dim": tail_sym.dim, "level": tail_sym.level})
            c.update(kw)
            return c

        variant = (n + tail_sym.idx) % 7
        if variant == 6:
            got = bool(_real(det, vec, tail_sym.mat))  # direct call, as a user of the detector class would
        else:
            got = ctx.filters.call(res, variant, det, vec, tail_sym.mat, step_case, ctx.item)
        ctx.transitions += 1
        # steps n <= D of a tail re-walk a history that is also a tree node: evaluated, but not counted as a new case
        _judge(res, ctx, "tail", path, got, det.metric, metric_r, dof_r, bound_r, step_case, count=n > ctx.depth)
        after = _canon(det)
        ctx.states.add(after)
        if rec is not None:
            rec.append((tail_sym, vec, got, _f(det.metric), after))
        # fixed point of the deterministic transition (same state, same input): every remaining step of this tail is this
        # same transition again and the reference statistic is a function of the same window -> nothing new to check
        fixed = rec is None and after == before and tail_sym.vec is not None
        if want_mono or fixed:
            _monotone(res, ctx, path, det if det_prev is None else det_prev, rdet_prev, tail_sym, vec, got, det.metric, step_case)
        if want_mono and tail_sym.dim >= 2 and ctx.reporter is not None and path_node.length <= REPORT_FULL_DEPTH:
            # history of length 12 / 50 (window eviction, fading steady state) through the real EstimateAgent; the copy
            # taken before the step is not modified by _monotone (which works on its own copies)
            ctx.reporter.step(res, ctx, det_prev, tail_sym, vec, nis, metric_r, dof_r, bound_r, got, after, n,
                              (n + tail_sym.idx + path_node.length) % 2 == 0, step_case)
        if fixed:
            res.extra["tail_steps_closed_by_fixed_point"] = res.extra.get("tail_steps_closed_by_fixed_point", 0) + (length - n)
            break
        before = after
    return rec


def _run_explore(res, item):
    ctx = _Ctx(item)
    det0 = _make_real(ctx.kind, ctx.alpha, ctx.param, via_config=False)
    rdet0 = _make_ref(ctx.kind, ctx.alpha, ctx.param)
    ctx.states.add(_canon(det0))
    frontier = [(det0, rdet0, _Path())]
    record = {}  # history (tuple of symbol indices) -> (vec, decision, metric, canonical state)
    long_tails = []  # (history indices, tail symbol, recorded steps) for the fresh long replays
    ctx.trace_on = True
    for tail_sym in ctx.syms:  # constant histories s^k: tails from the empty history
        long_tails.append(((), _run_tail(res, ctx, det0, rdet0, _Path(), tail_sym, 50, True)))
        res.traces += 1
    ctx.trace_on = False
    for depth in range(1, ctx.depth + 1):
        nxt = []
        for det, rdet, path in frontier:
            hidx = tuple(path.hist)
            for sym in ctx.syms:
                vec, nis = sym.realize(rdet)
                rdet2 = rdet.copy()
                metric_r, dof_r, bound_r = rdet2.step(nis, sym.dim)
                path2 = path.extend(sym.idx, sym.dim, False)

                def step_case(_p=path2, _s=sym, **kw):
                    c = ctx.base_case()
                    c.update({"history": [ctx.syms[i].label for i in _p.hist], "step": _p.length, "phase": "tree", "dim": _s.dim, "level": _s.level})
                    c.update(kw)
                    return c

                det2 = copy.deepcopy(det)
                got = ctx.filters.call(res, (depth + sym.idx + len(hidx) * 2) % 6, det2, vec, sym.mat, step_case, ctx.item)
                ctx.transitions += 1
                ctx.trace_on = True
                _judge(res, ctx, "tree", path2, got, det2.metric, metric_r, dof_r, bound_r, step_case)
                ctx.trace_on = False
                state2 = _canon(det2)
                ctx.states.add(state2)
                # the same transition by a direct call on another copy: same decision, same state
                det3 = copy.deepcopy(det)
                r3 = bool(_real(det3, vec, sym.mat))
                ctx.transitions += 1
                ok = r3 == got and _canon(det3) == state2
                res.case(
                    "differential/direct_vs_filter",
                    step_case() if (not ok or len(res.samples) < 2) else _EMPTY,
                    ok,
                    signature=f"C17/{ctx.kind}/differential/direct_vs_filter",
                    observed={"direct": r3, "state": repr(_canon(det3))},
                    expected={"via_filter": got, "state": repr(state2)},
                    item=ctx.item,
                )
                _monotone(res, ctx, path2, det, rdet, sym, vec, got, det2.metric, step_case)
                if (
                    ctx.reporter is not None
                    and sym.dim >= 2
                    and (depth <= REPORT_FULL_DEPTH or len(nxt) % 3 == depth % 3)
                    and (got or (depth + sym.idx + len(nxt)) % 4 == 0)
                ):
                    # the same transition through the real EstimateAgent (reporting layer): every declared maneuver and
                    # every fourth nominal step of the histories of length <= 3, every third of those of the longer
                    # ones; an agent update always carries azimuth and elevation, so dimension 1 does not occur there.
                    # Every fourth one through the parallel job path.
                    ctx.reporter.step(res, ctx, copy.deepcopy(det), sym, vec, nis, metric_r, dof_r, bound_r, got, state2,
                                      path2.length, (depth + 2 * sym.idx + len(nxt) // 5) % 4 == 0, step_case)
                record[path2.hist] = (vec, got, _f(det2.metric), state2)
                nxt.append((det2, rdet2, path2))
                if depth <= ctx.d12:
                    length = 50 if depth <= ctx.d50 else 12
                    lpath = _Path(tuple(ctx.syms[i].label for i in path2.hist), path2.last_dim, path2.dimchange, path2.near, path2.length)
                    for tail_sym in ctx.syms:
                        if tail_sym is sym:
                            continue  # h + s^k with h ending in s is the parent's tail with s (at least as long)
                        want_rec = depth <= ctx.dfresh
                        rec = _run_tail(res, ctx, det2, rdet2, lpath, tail_sym, length, want_rec)
                        res.traces += 1
                        if want_rec:
                            long_tails.append((path2.hist, rec))
        frontier = nxt

    # differential oracle: a fresh detector (built by the real factory from a real config object) fed the whole history
    for _, _, path in frontier:
        fresh = _make_real(ctx.kind, ctx.alpha, ctx.param, via_config=True)
        ok, where, obs, exp = True, None, None, None
        for j in range(1, path.length + 1):
            vec, got, metric, state = record[path.hist[:j]]
            sym = ctx.syms[path.hist[j - 1]]
            r = bool(_real(fresh, vec, sym.mat))
            ctx.transitions += 1
            st = _canon(fresh)
            if ok and not (r == got and st == state):
                ok, where, obs, exp = False, j, {"detected": r, "state": repr(st)}, {"detected": got, "state": repr(state)}
        res.observe(_f(fresh.metric))
        res.case(
            "differential/continued_vs_fresh",
            {**ctx.base_case(), "history": [ctx.syms[i].label for i in path.hist], "first_difference_at_step": where} if (not ok or len(res.samples) < 2) else _EMPTY,
            ok,
            nontrivial=path.dimchange or path.near,
            signature=f"C17/{ctx.kind}/differential/continued_vs_fresh",
            observed=obs,
            expected=exp,
            item=ctx.item,
        )
        res.traces += 2  # the leaf history on the continued detectors and on the fresh one
    for hidx, rec in long_tails:
        fresh = _make_real(ctx.kind, ctx.alpha, ctx.param, via_config=True)
        ok, where, obs, exp = True, None, None, None
        steps = [(ctx.syms[hidx[j - 1]],) + record[hidx[:j]] for j in range(1, len(hidx) + 1)] + rec
        for j, (sym, vec, got, metric, state) in enumerate(steps, start=1):
            r = bool(_real(fresh, vec, sym.mat))
            ctx.transitions += 1
            st = _canon(fresh)
            if ok and not (r == got and st == state):
                ok, where, obs, exp = False, j, {"detected": r, "state": repr(st)}, {"detected": got, "state": repr(state)}
        res.case(
            "differential/continued_vs_fresh_long",
            {**ctx.base_case(), "history": [s[0].label for s in steps][:8] + ["..."], "first_difference_at_step": where} if (not ok or len(res.samples) < 2) else _EMPTY,
            ok,
            nontrivial=True,
            signature=f"C17/{ctx.kind}/differential/continued_vs_fresh",
            observed=obs,
            expected=exp,
            item=ctx.item,
        )
        res.traces += 1
    res.states += len(ctx.states)
    res.transitions += ctx.transitions
    # for finalize (private attribute: travels with the pickled Result, stays out of the evidence)
    res.unit_trace = (list(ctx.item[1:10]), ctx.unit, "".join(ctx.trace_d), ctx.trace_m, list(ctx.item))


# ------------------------------------------------------------------------------------------------ lattice items
def _run_stat(res, item):
    """physics/statistics.py directly: quadratic form on dimensions 1..8, one-sided test around its bound."""
    seed = int(item[1])
    phase = 0.37 * (seed % 1000)
    for dim in range(1, 9):
        for cov in ("I", "S", "C", "M", "W"):
            at_unit_1 = {}
            for unit in UNITS_LATTICE:  # unit 1 first: the other units are also compared with it
                lst, units = _covariance(cov, dim, phase + 0.05 * dim, unit)
                mat = np.array(lst, dtype=float)
                for k, scale in enumerate((0.0, 1e-3, 1.0, 37.5)):
                    for flip in (1.0, -1.0):
                        u = ref.direction(dim, phase + 0.3 * k)
                        vec = [flip * scale * t * (1.0 + 0.25 * i) * units[i] for i, t in enumerate(u)]
                        want = ref.quad_form(vec, lst)
                        got = _f(_real(chiSquareQuadraticForm, np.array(vec), mat))
                        correlated = cov in ("S", "C", "W") and dim > 1 or cov == "M" and dim > 2
                        res.case(
                            "stat/quadratic_form",
                            {"dim": dim, "cov": cov, "scale": scale, "flip": flip, "unit": unit},
                            got is not None and abs(got - want) <= MTOL * max(abs(want), 1e-300),
                            nontrivial=correlated and scale > 0,
                            signature=f"C17/stat/quadratic_form/{cov}/{'unit_1' if unit == 1.0 else 'unit_small' if unit < 1.0 else 'unit_large'}",
                            observed=got,
                            expected=want,
                            item=item,
                        )
                        res.observe(got)
                        if unit == 1.0:
                            at_unit_1[(k, flip)] = got
                            continue
                        # the statistic has no unit: same value as in unit 1, to the rounding of both evaluations
                        one = at_unit_1[(k, flip)]
                        res.case(
                            "stat/unit_invariance",
                            {"dim": dim, "cov": cov, "scale": scale, "flip": flip, "unit": unit},
                            got is not None and one is not None and abs(got - one) <= UTOL * MTOL * max(abs(one), 1e-300),
                            nontrivial=correlated and scale > 0,
                            signature=f"C17/stat/unit_invariance/{cov}/{'unit_small' if unit < 1.0 else 'unit_large'}",
                            observed=got,
                            expected=one,
                            item=item,
                        )
    alphas = (0.001, 0.01, 0.05, 0.3, 0.5, 0.9, 0.999)
    dofs = (1, 2, 3, 4, 5, 6, 7, 8, 1.5, 4.5, 13.75, 24, 80, 398.0, 1592.0)
    for alpha in alphas:
        for dof in dofs:
            for runs in (1, 3):
                b = ref.upper_tail_bound(alpha, dof * runs) / runs
                for lvl, fac in (("zero", 0.0), ("half", 0.5), ("below", 1 - EPS), ("above", 1 + EPS), ("x10", 10.0)):
                    metric = b * fac
                    got = _real(oneSidedChiSquareTest, metric, alpha, dof) if runs == 1 else _real(oneSidedChiSquareTest, metric, alpha, dof, runs)
                    want = metric < b
                    res.case(
                        "stat/one_sided_test",
                        {"alpha": alpha, "dof": dof, "runs": runs, "level": lvl},
                        bool(got) == want,
                        nontrivial=lvl in ("below", "above"),
                        signature=f"C17/stat/one_sided_test/runs={runs}",
                        observed=bool(got),
                        expected=want,
                        outcome=str(want),
                        item=item,
                    )
                    res.observe(bool(got))


def _tie_histories():
    """Histories whose statistic is computed without any rounding (dyadic values, identity covariance)."""
    out = []
    xs = [k / 4.0 for k in range(2, 25)]
    for d in (1, 2, 3):
        for x in xs:
            out.append((STANDARD, None, [(2, 1.0)], (d, x)))
            out.append((SLIDING, 1, [(2, 1.5)], (d, x)))
            out.append((SLIDING, 2, [(2, 1.5), (1, 0.75)], (d, x)))
            out.append((SLIDING, 4, [(3, 1.5), (1, 0.75), (2, 0.5)], (d, x)))
            out.append((FADING, 0.5, [(2, 1.5)], (d, x)))
            out.append((FADING, 0.25, [(2, 0.5), (1, 0.75), (1 if d != 2 else 3, 1.25)], (d, x)))
    return out


def _tie_vec(dim, x):
    return np.array([x] + [0.5] * (dim - 1))


def _run_tie(res, item):
    """metric == bound exactly: 'reaches the bound' means a detection; one step of 2^-20 below it does not."""
    from scipy.stats import chi2  # noqa: PLC0415  (the tie needs the very double the implementation's bound is)

    found = {STANDARD: 0, SLIDING: 0, FADING: 0}
    step = 2.0**-20
    for kind, param, prefix, (d, x) in _tie_histories():
        # exact statistic by the documented formula; all operands dyadic with few bits -> no rounding anywhere
        nis = [xx * xx + 0.25 * (dd - 1) for dd, xx in prefix]
        dims = [dd for dd, _ in prefix]
        rd = _make_ref(kind, 0.5, param)
        for n_, d_ in zip(nis, dims):
            rd.step(n_, d_)
        last = x * x + 0.25 * (d - 1)
        m = rd.metric_after(last)
        dof = rd.dof_after(d)
        alpha = float(chi2.sf(m, dof))
        if not (1e-9 < alpha < 1 - 1e-9) or float(chi2.isf(alpha, dof)) != m:
            continue  # no exact tie at this lattice point
        found[kind] += 1
        for unit in TIE_UNITS:  # a dyadic unit changes no mantissa: the tie stays exact in every unit
            for label, xl, want in (("below", x - step, False), ("tie", x, True), ("above", x + step, True)):
                det = _make_real(kind, alpha, param, via_config=False)
                for dd, xx in prefix:
                    _real(det, unit * _tie_vec(dd, xx), unit * unit * np.eye(dd))
                got = bool(_real(det, unit * _tie_vec(d, xl), unit * unit * np.eye(d)))
                rd2 = rd.copy()
                m_want, _, _ = rd2.step(xl * xl + 0.25 * (d - 1), d)
                ok = got == want and _f(det.metric) == m_want
                res.case(
                    "tie/decision",
                    {"kind": kind, "param": param, "alpha": alpha, "prefix": prefix, "dim": d, "x": xl, "at": label, "unit": unit},
                    ok,
                    nontrivial=True,
                    signature=f"C17/{kind}/tie/{label}",
                    observed={"detected": got, "metric": _f(det.metric)},
                    expected={"detected": want, "metric": m_want, "bound": m},
                    outcome=f"{label}:{want}",
                    item=item,
                )
                res.observe(got, _f(det.metric))
    for kind, n in found.items():
        if n < 10:
            res.cap(f"only {n} exact metric==bound ties found for {kind}; the equality side of the threshold is weakly covered")
    res.extra["exact_ties"] = sum(found.values())


def _run_misc(res, item):
    """Documented constructor defaults, window 1 / delta near the ends accepted, the no-detector branch."""
    seed = int(item[1])
    phase = 0.37 * (seed % 1000)
    # defaults: window_size=4, delta=0.8 (docstrings)
    hist = [(2, 0.7), (3, 1.9), (1, 0.2), (2, 3.1), (8, 0.9), (2, 0.4), (3, 2.2)]
    builders = (
        ("SlidingNis default window", lambda: SlidingNis(0.05), (SLIDING, 0.05, 4)),
        ("FadingMemoryNis default delta", lambda: FadingMemoryNis(0.05), (FADING, 0.05, 0.8)),
        ("SlidingNis window 1", lambda: SlidingNis(0.05, 1), (SLIDING, 0.05, 1)),
        ("SlidingNis window 10", lambda: SlidingNis(0.05, 10), (SLIDING, 0.05, 10)),
        ("FadingMemoryNis delta 0.001", lambda: FadingMemoryNis(0.05, 0.001), (FADING, 0.05, 0.001)),
        ("FadingMemoryNis delta 0.999", lambda: FadingMemoryNis(0.05, 0.999), (FADING, 0.05, 0.999)),
        ("StandardNis", lambda: StandardNis(0.05), (STANDARD, 0.05, None)),
    )
    # every history in every unit, on full / strongly correlated / mixed-unit / weakly correlated covariances
    for cov, unit in [(c, u) for c in ("S", "C", "M", "W") for u in UNITS_LATTICE]:
        for name, build, rcfg in builders:
            det = _real(build)
            rdet = _make_ref(*rcfg)
            for rep in range(3):
                for j, (dim, frac) in enumerate(hist):
                    lst, units = _covariance(cov, dim, phase + j, unit)
                    low = ref.cholesky_lower(lst)
                    u = [t * w for t, w in zip(ref.direction(dim, phase + 0.2 * j), units)]
                    target = frac * rdet.bound_after(dim) if rep != 1 else max(0.0, rdet.needed_nis(rdet.bound_after(dim) * (1 + (EPS if j % 2 else -EPS))))
                    s = math.sqrt(target / ref.quad_form_chol(u, low))
                    vec = [s * t for t in u]
                    metric_r, dof_r, bound_r = rdet.step(ref.quad_form_chol(vec, low), dim)
                    got = bool(_real(det, np.array(vec), np.array(lst)))
                    either = abs(metric_r - bound_r) <= EITHER * bound_r
                    dm = _f(det.metric)
                    ok = (either or got == (metric_r >= bound_r)) and dm is not None and abs(dm - metric_r) <= MTOL * max(metric_r, 1e-300)
                    res.case(
                        "misc/defaults_and_extremes",
                        {"detector": name, "step": rep * len(hist) + j + 1, "dim": dim, "cov": cov, "unit": unit},
                        ok,
                        nontrivial=True,
                        signature=f"C17/misc/{name.replace(' ', '_')}",
                        observed={"detected": got, "metric": dm},
                        expected={"detected": metric_r >= bound_r, "metric": metric_r, "bound": bound_r, "dof": dof_r},
                        item=item,
                    )
                    res.observe(got, dm)
    # no detector configured: nothing is raised, nothing is touched
    for adaptive, iod in ((False, False), (True, False), (False, True)):
        flt = _make_filter(adaptive=adaptive, iod=iod)
        for pre in (FilterFlag.NONE, FilterFlag.ADAPTIVE_ESTIMATION_CLOSE):
            flt._flags = pre
            flt.innovation = np.array([1e3, 1e3])
            flt.innov_cvr = np.eye(2)
            _real(flt.checkManeuverDetection)
            ok = flt.flags == pre and flt.maneuver_detected is False and flt.maneuver_metric is None
            res.case(
                "misc/no_detector",
                {"adaptive": adaptive, "iod": iod, "pre": str(pre)},
                ok,
                signature="C17/filter/no_detector",
                observed={"flags": str(flt.flags), "maneuver_detected": repr(flt.maneuver_detected)},
                expected={"flags": str(pre), "maneuver_detected": False},
                item=item,
            )


def _real_run(res, item, kind, alpha, param, rot, burn, job):
    """One fully real run: EstimateAgent + UKF built by the real factories from real configs, truth with one burn,
    real Observations; prediction through EstPredictRegistration + asyncPredict, update through EstimateAgent.update or
    the job path.  The reference statistic is recomputed from the whole history of the filter's own innovations."""
    _fresh_db()
    clock = ScenarioClock(REPORT_START, REAL_DT * REAL_STEPS, REAL_DT)
    dyn = TwoBody()
    truth = np.array(REAL_TRUTH_0)
    est_x = truth + np.array(REAL_EST_OFFSET)
    if kind == STANDARD:
        md = StandardNISConfig(threshold=alpha)
    elif kind == SLIDING:
        md = SlidingNISConfig(threshold=alpha, window_size=param)
    else:
        md = FadingMemoryNISConfig(threshold=alpha, delta=param)
    flt = _real(sequentialFilterFactory, UKFConfig(maneuver_detection=md), REPORT_TGT, clock.time, est_x, np.diagflat(REAL_P0), dyn, 1e-9 * np.eye(6))
    agent = _real(EstimateAgent, REPORT_TGT, "tgt", "Spacecraft", clock, est_x, flt.est_p, flt, None, None, 10.0, 100.0, 0.21, seed=1)
    meas = {k: _measurement(k) for k in MEAS_DIM}
    sids = sorted(SENSOR_ECI)
    rdet = _make_ref(kind, alpha, param)
    path = "job" if job else "serial"
    near = False
    reported = []
    for step in range(1, REAL_STEPS + 1):
        truth = dyn.propagate(ScenarioTime(REAL_DT * (step - 1)), ScenarioTime(REAL_DT * step), truth)
        if step == REAL_BURN_STEP:
            truth = truth + np.array([0.0, 0.0, 0.0, 0.0, burn, -burn])
        _real(_agent_predict, agent)
        clock.ticToc()
        kinds = REAL_PATTERN[(step - 1 + rot) % len(REAL_PATTERN)]
        jd_want = _jd(REPORT_START, REAL_DT * step)
        obs, sensors = [], []
        for j, mk_ in enumerate(kinds):
            sid = sids[(j + step) % len(sids)]
            sensors.append(sid)
            obs.append(Observation.fromMeasurement(jd_want, REPORT_TGT, truth, sid, np.array(SENSOR_ECI[sid]), "AdvRadar", meas[mk_], noisy=False))
        state_before = _canon(agent.nominal_filter.maneuver_detection)
        _real(_agent_update, agent, obs, job)
        flt = agent.nominal_filter
        det = flt.maneuver_detection
        recs = agent.getDetectedManeuvers()
        agent.getFilterSteps()
        res.transitions += 1

        def mk(_step=step, _kinds=kinds, **kw):
            c = {"kind": kind, "alpha": alpha, "param": param, "burn_km_s": burn, "agent_path": path, "step": _step,
                 "measurements": "+".join(_kinds) or "none", "pattern_rotation": rot}
            c.update(kw)
            return c

        if not obs:
            # no observation: the detector is not consulted, nothing is reported
            ok = not recs and _canon(det) == state_before
            res.case("real/no_observation", mk(), ok, nontrivial=len(rdet.nis) > 0,
                     signature=f"C17/{kind}/report/no_observation", observed={"records": len(recs), "state": repr(_canon(det))},
                     expected={"records": 0, "state": repr(state_before)}, item=item)
            continue
        innov = [float(x) for x in np.asarray(flt.innovation).ravel()]
        cvr = np.array(flt.innov_cvr, dtype=float)
        dim = len(innov)
        if dim != sum(MEAS_DIM[k] for k in kinds):
            raise RuntimeError(f"harness: innovation of dimension {dim} for measurements {kinds}")
        sd = np.sqrt(np.diag(cvr))
        cond = float(np.linalg.cond(cvr / np.outer(sd, sd)))
        if not cond < REAL_COND_MAX:
            raise ArithmeticError(f"real run: innovation correlation matrix too ill-conditioned for REAL_TOL: {cond}")
        nis_ref = ref.quad_form(innov, cvr.tolist())
        metric_r, dof_r, bound_r = rdet.step(nis_ref, dim)
        near = near or abs(metric_r - bound_r) <= 2.0 * EPS * bound_r
        got = bool(flt.maneuver_detected)
        expected = metric_r >= bound_r
        if abs(metric_r - bound_r) <= REAL_TOL * bound_r:
            res.either_way += 1
            ok, outcome = True, "either"
        else:
            ok, outcome = got == expected, "detected" if expected else "nominal"
        res.case(
            "real/decision",
            mk(metric=metric_r, bound=bound_r, dof=dof_r) if (not ok or len(res.samples) < 2) else _EMPTY,
            ok,
            nontrivial=len(rdet.nis) > 1,  # dimensions vary from step to step in every run
            signature=f"C17/{kind}/real/decision/{'missed_detection' if expected else 'false_detection'}",
            observed={"detected": got, "metric": _f(det.metric)},
            expected={"detected": expected, "metric": metric_r, "bound": bound_r, "dof": dof_r},
            outcome=outcome,
            item=item,
        )
        okm = _f(det.metric) is not None and abs(_f(det.metric) - metric_r) <= REAL_TOL * max(abs(metric_r), 1e-300)
        res.case("real/metric", mk(metric=metric_r) if not okm else _EMPTY, okm, signature=f"C17/{kind}/real/metric",
                 observed=_f(det.metric), expected=metric_r, item=item)
        res.observe(got, _f(det.metric), _f(flt.nis))
        _check_records(res, "real/report", kind, alpha, recs, got, nis_ref, metric_r, dof_r, bound_r, sensors, jd_want, REAL_TOL, mk, item)
        reported.append([(float(r.nis), float(r.metric), r.sensor_ids, float(r.julian_date)) for r in recs])
    res.traces += 1
    res.states += len(rdet.nis)
    return reported


def _run_real(res, item):
    """Every burn x {serial update, job path} for one detector configuration; the two paths of one burn report the same
    records bit for bit."""
    _, kind, alpha, param, seed = item
    rot = int(seed) % len(REAL_PATTERN)
    detections = 0
    for burn in REAL_BURNS:
        runs = [_real_run(res, item, kind, alpha, param, rot, burn, job) for job in (False, True)]
        detections += sum(len(r) for r in runs[0])
        ok = runs[0] == runs[1]
        res.case(
            "real/serial_vs_job",
            {"kind": kind, "alpha": alpha, "param": param, "burn_km_s": burn, "pattern_rotation": rot},
            ok,
            nontrivial=any(runs[0]),
            signature=f"C17/{kind}/differential/serial_vs_job",
            observed=repr(runs[1])[:400],
            expected=repr(runs[0])[:400],
            item=item,
        )
    if detections == 0:
        res.cap(f"real runs of {kind} threshold {alpha} param {param}: no maneuver was declared at any burn; the reporting layer is not exercised there")


# ------------------------------------------------------------------------------------------------ adaptive estimation
# Histories in which the filter that carries the detector is REPLACED and handed back: a detection on a real UKF opens
# multiple-model adaptive estimation (real adaptiveEstimationFactory + real initialize(): the model filters are built
# by the real _createModels and share the target's detector), k observed steps run inside it, the real update()
# decides that it has converged (real prune / gate / _resumeSequentialFiltering) and estimation continues on the
# ``converged_filter``.  DOCUMENTED HISTORY asserted here: the detector classes document their statistic over "the
# innovations given to the detector" (SlidingNis: the last w of them, FadingMemoryNis: all of them, faded by age); the
# filters of ONE target share ONE detector by construction (the adaptive filter passes its own detector to every
# model, and the converged filter continues "the" maneuver detection of the target), so the history of the target's
# detector is every innovation evaluated for that target in evaluation order - the steps of the nominal filter, then
# one entry per model filter per observed step inside adaptive estimation (models in list order), then the steps of
# the converged filter.  Nothing processed is skipped and nothing is counted twice when the filter object changes.
MMAE_DT = 60.0
MMAE_T0 = 600.0
MMAE_X0 = (7000.0, 0.0, 0.0, 0.0, 5.3, 5.4)
MMAE_ESTIMATORS = ("smm", "gpb1")
MMAE_MODELS = (2, 3)
MMAE_PRE = (0, 2)  # nominal steps before the step whose detection opens adaptive estimation
MMAE_K = (1, 2, 3)  # observed steps inside adaptive estimation (the first one runs inside initialize())
MMAE_PRUNE_THRESHOLD = 1e-10
MMAE_PRUNE_PERCENTAGE = 0.997
# (dimension, covariance kind) of the steps, rotating with the step number and the trace
MMAE_SHAPES = ((2, "S"), (4, "C"), (3, "S"), (2, "C"), (8, "S"), (4, "S"))
# statistic of the nominal steps before the detection, as a fraction of the detector's own bound; the detection: 10 x
MMAE_PRE_FRACTIONS = (0.3, 0.6)
# statistic of the steps on the converged filter as a fraction of the detector's own bound given the documented
# history (1 -+ 1e-6: a remembered / forgotten entry of the history flips the decision), rotating
MMAE_POST_FRACTIONS = (0.5, 1.0 - EPS, 1.0 + EPS, 0.3, 0.0, 0.9, 1.0 + EPS, 1.0 - EPS, 0.7, 2.0)
# NIS of the model filters inside adaptive estimation (absolute: the real convergence logic works on them).  Open
# steps: SMM all models ~1 (equal likelihoods, no model reaches 0.997), GPB1 all ~40 (combined NIS above the 0.003
# gate of <= 8 degrees of freedom, 23.6).  Closing step: SMM 'prune' = model 0 at 0.8, the others at 80 (weights
# < 1e-10 are pruned), SMM 'gate' = the others at 24 (weight of model 0 >= 0.997, the others stay above 1e-10),
# GPB1 = all at 0.8 (combined NIS passes the gate).
MMAE_NIS_OPEN = {"smm": 1.0, "gpb1": 40.0}
MMAE_NIS_CLOSE = {"prune": (0.8, 80.0), "gate": (0.8, 24.0), "gpb1": (0.8, 0.8)}

_MMAE_QUEUE: list = []  # (innovation, covariance) in the order of the scripted filter updates to come
_MMAE_CALLS: list = []  # the filters whose update consumed an entry, in that order
_MMAE_HARNESS = {"n": None}


class _MmaeUKF(UnscentedKalmanFilter):
    """A real UKF (real predict, real no-observation update) whose update WITH observations keeps the last lines of
    ``UnscentedKalmanFilter.update`` only - source, innovation, innov_cvr, nis, the real ``checkManeuverDetection`` -
    on the next scripted innovation, and fills the attributes the adaptive filter combines (posterior = prior).  The
    real ``_createModels`` / ``_resumeSequentialFiltering`` build the model filters and the converged filter from the
    class of the nominal filter, so they are of this class as well."""

    def update(self, observations):
        if not observations:
            UnscentedKalmanFilter.update(self, observations)
            return
        vec, cov = _MMAE_QUEUE.pop(0)
        dim = len(vec)
        self._flags = FilterFlag.NONE
        self.source = EstimateSource.INTERNAL_OBSERVATION
        self.est_x = np.array(self.pred_x, dtype=float)
        self.est_p = np.array(self.pred_p, dtype=float)
        self.is_angular = np.zeros(dim, dtype=bool)
        self.r_matrix = np.zeros((dim, dim))
        self.mean_pred_y = np.zeros(dim)
        self.true_y = np.array(vec, dtype=float)
        self.cross_cvr = np.zeros((self.x_dim, dim))
        self.kalman_gain = np.zeros((self.x_dim, dim))
        self.innov_cvr = cov
        self.innovation = vec
        self.nis = chiSquareQuadraticForm(vec, cov)
        self.maneuver_detected = None  # sentinel
        self.checkManeuverDetection()
        _MMAE_CALLS.append(self)


class _MmaeRow:
    def __init__(self, jd):
        self.julian_date = jd


def _mmae_fake_fetch(database, sat_nums, jd_lb=None, jd_ub=None):  # noqa: ARG001
    """Observation query of initialize(): the observation before the maneuver lies (n - 1) model intervals before the
    detection, so that the real _calculateTimestep asks for n models."""
    return [_MmaeRow(float(jd_ub) - (_MMAE_HARNESS["n"] - 1) * MMAE_DT / 86400.0)]


def _mmae_nominal_states(self, *_a, **_k):
    return np.zeros((self.num_models, self.x_dim))


def _mmae_maneuvers(self, *_a, **_k):
    return np.zeros((self.num_models, 3))


def _mmae_hypothesis_states(self, nominal_states, maneuvers, maneuver_times):  # noqa: ARG001
    return np.array([np.array(self.est_x, dtype=float) + 1e-3 * i for i in range(self.num_models)])


def _mmae_install_seams():
    """Database queries and Lambert targeting of initialize() are outside this property: replaced (as in C18)."""
    import resonaate.estimation.adaptive.adaptive_filter as afm  # noqa: PLC0415

    afm.fetchObservationsByJDInterval = _mmae_fake_fetch
    afm.AdaptiveFilter._calculateNominalStates = _mmae_nominal_states  # noqa: SLF001
    afm.AdaptiveFilter._generateHypothesisManeuvers = _mmae_maneuvers  # noqa: SLF001
    afm.AdaptiveFilter._generateHypothesisStates = _mmae_hypothesis_states  # noqa: SLF001


def _mmae_items(tier, seed):
    """Per estimator: the standard detector (control: no memory) and every window / delta; quick: ONE threshold each
    (rotating), thorough: all thresholds."""
    return [("mmae", kind, alpha, param, est, seed) for est in MMAE_ESTIMATORS for kind, alpha, param in _configs()
            if tier != "quick" or _config_in_unit_family(1 if est == "gpb1" else 0, kind, alpha, param)]


def _mmae_post_steps(kind, param):
    return (param if kind == SLIDING else 3) + 2


class _MmaeTrace:
    """One history nominal -> adaptive estimation -> converged filter on real objects, reference in lock step."""

    def __init__(self, res, item, n, pre, k, close, gap, rot):
        _, self.kind, self.alpha, self.param, self.est, seed = item
        self.res, self.item = res, tuple(item)
        self.n, self.pre, self.k, self.close, self.gap, self.rot = n, pre, k, close, gap, rot
        self.phase = 0.37 * (int(seed) % 1000) + 0.13 * rot
        self.syms = {}
        self.rdet = _make_ref(self.kind, self.alpha, self.param)
        self.fresh = _make_real(self.kind, self.alpha, self.param, via_config=False)
        self.t = MMAE_T0
        self.step_no = 0
        self.calls = 0
        self.where = "nominal"
        jd = _jd(REPORT_START, self.t)
        x0 = np.array(MMAE_X0)
        self.obs = [Observation.fromMeasurement(jd, REPORT_TGT, x0, 300000, np.array(SENSOR_ECI[300000]), "Optical",
                                                _measurement("O"), noisy=False)]

    def sym(self):
        dim, cov = MMAE_SHAPES[(self.step_no + self.rot) % len(MMAE_SHAPES)]
        key = (dim, cov)
        if key not in self.syms:
            self.syms[key] = _Sym(len(self.syms), (dim, "Bbelow", cov), self.alpha, self.phase + 0.11 * len(self.syms))
        return self.syms[key]

    def mk(self, **kw):
        c = {"kind": self.kind, "alpha": self.alpha, "param": self.param, "estimator": self.est, "models": self.n,
             "nominal_steps_before": self.pre, "steps_inside": self.k, "closing": self.close, "unobserved_step_inside": self.gap,
             "rotation": self.rot, "step": self.step_no, "detector_calls_so_far": self.calls, "filter": self.where}
        c.update(kw)
        return c

    def judge(self, sub, got, det_metric, metric_r, dof_r, bound_r, nontrivial, check_metric=True):
        res = self.res
        expected = metric_r >= bound_r
        if abs(metric_r - bound_r) <= EITHER * bound_r:
            res.either_way += 1
            ok, outcome = True, "either"
        else:
            ok, outcome = (got is not None and bool(got) == expected), "detected" if expected else "nominal"
        res.case(
            f"mmae/{sub}/decision",
            self.mk(metric=metric_r, bound=bound_r, dof=dof_r) if (not ok or len(res.samples) < 2) else _EMPTY,
            ok,
            nontrivial=nontrivial,
            signature=f"C17/{self.kind}/mmae/{self.est}/{sub}/decision/{'missed_detection' if expected else 'false_detection'}",
            observed={"detected": None if got is None else bool(got), "metric": _f(det_metric)},
            expected={"detected": expected, "metric": metric_r, "bound": bound_r, "dof": dof_r},
            outcome=f"{sub}:{outcome}",
            item=self.item,
        )
        if check_metric:
            okm = _f(det_metric) is not None and abs(_f(det_metric) - metric_r) <= MTOL * max(abs(metric_r), 1e-300)
            res.case(
                f"mmae/{sub}/metric",
                self.mk(metric=metric_r) if not okm else _EMPTY,
                okm,
                nontrivial=nontrivial,
                signature=f"C17/{self.kind}/mmae/{self.est}/{sub}/metric",
                observed=_f(det_metric),
                expected=metric_r,
                item=self.item,
            )
        res.observe(None if got is None else bool(got), _f(det_metric))
        return expected

    def state_case(self, sub, det, nontrivial):
        """Differential oracle: the detector the active filter carries == a fresh detector given the documented history."""
        got, want = _canon(det), _canon(self.fresh)
        ok = got == want
        self.res.case(
            f"mmae/{sub}/detector_state",
            self.mk() if (not ok or len(self.res.samples) < 2) else _EMPTY,
            ok,
            nontrivial=nontrivial,
            signature=f"C17/{self.kind}/mmae/{self.est}/{sub}/detector_state",
            observed=repr(got),
            expected=repr(want),
            item=self.item,
        )

    def script(self, target_nis=None, fraction=None, scale=1.0):
        """Queue one innovation: statistic of the detector = fraction x its own bound given the documented history,
        or single-step NIS = target_nis; returns the reference (metric, dof, bound) of that detector call."""
        sym = self.sym()
        if fraction is not None:
            target_nis = max(0.0, self.rdet.needed_nis(fraction * self.rdet.bound_after(sym.dim)))
        vec, nis = sym.make(target_nis * scale)
        _MMAE_QUEUE.append((vec, sym.mat))
        _real(self.fresh, vec, sym.mat)
        self.calls += 1
        return self.rdet.step(nis, sym.dim)

    def sequential_step(self, flt, sub, fraction, nontrivial):
        """predict + observed update of a sequential filter (nominal or converged)."""
        self.step_no += 1
        self.t += MMAE_DT
        _real(flt.predict, ScenarioTime(self.t))
        metric_r, dof_r, bound_r = self.script(fraction=fraction)
        _real(flt.update, self.obs)
        self.res.transitions += 1
        det = flt.maneuver_detection
        expected = self.judge(sub, flt.maneuver_detected, det.metric, metric_r, dof_r, bound_r, nontrivial)
        self.state_case(sub, det, nontrivial)
        return expected

    def unobserved_step(self, flt, sub):
        self.step_no += 1
        self.t += MMAE_DT
        _real(flt.predict, ScenarioTime(self.t))
        _real(flt.update, [])
        self.res.transitions += 1
        self.state_case(sub + "_unobserved", flt.maneuver_detection, self.kind != STANDARD)

    def model_nis(self, j, closing):
        if not closing:
            return MMAE_NIS_OPEN[self.est] * (1.0 + 0.02 * j)
        first, others = MMAE_NIS_CLOSE[self.close]
        return first if j == 0 else others * (1.0 + 0.02 * j)

    def inside_step(self, closing, opener=None):
        """One observed step inside adaptive estimation: every model filter evaluates its innovation with the shared
        detector.  ``opener`` = callable that runs factory + initialize (first step), else predict + update."""
        self.step_no += 1 if opener is None else 0  # the opening step is the step of the detection
        refs = [self.script(target_nis=self.model_nis(j, closing)) for j in range(self.n)]
        del _MMAE_CALLS[:]
        if opener is None:
            self.t += MMAE_DT
            if self.rot % 3 == 1:  # the job path pickles the target's filter at every step
                self.af = pickle.loads(pickle.dumps(self.af))
            _real(self.af.predict, ScenarioTime(self.t))
            _real(self.af.update, self.obs)
        else:
            opener()
        self.res.transitions += 1
        if _MMAE_QUEUE or len(_MMAE_CALLS) != self.n:
            raise RuntimeError(f"harness: {len(_MMAE_CALLS)} model updates for {self.n} scripted innovations")
        nontriv = self.kind != STANDARD
        for j, (model, (metric_r, dof_r, bound_r)) in enumerate(zip(_MMAE_CALLS, refs)):
            last = j == self.n - 1
            # the metric after a call is observable for the last model (detector.metric) and for declared maneuvers
            metric_got = model.maneuver_detection.metric if last else model.maneuver_metric if model.maneuver_detected else None
            self.where = f"model {j}"
            self.judge("inside", model.maneuver_detected, metric_got, metric_r, dof_r, bound_r, nontriv,
                       check_metric=metric_got is not None)
        self.where = "adaptive"
        self.state_case("inside", _MMAE_CALLS[-1].maneuver_detection, nontriv)
        converged = self.af.converged_filter is not None
        if converged != closing:
            raise RuntimeError(f"harness: adaptive estimation {'closed' if converged else 'still open'} at step {self.step_no} "
                               f"({self.est}, {self.close}, weights {getattr(self.af, 'model_weights', None)})")

    def run(self):
        from resonaate.estimation import adaptiveEstimationFactory  # noqa: PLC0415
        from resonaate.physics.time.stardate import JulianDate  # noqa: PLC0415
        from resonaate.scenario.config.estimation_config import (  # noqa: PLC0415
            GPB1AdaptiveEstimationConfig,
            SMMAdaptiveEstimationConfig,
        )

        del _MMAE_QUEUE[:]
        _MMAE_HARNESS["n"] = self.n
        det = _make_real(self.kind, self.alpha, self.param, via_config=True)
        nominal = _MmaeUKF(REPORT_TGT, ScenarioTime(self.t), np.array(MMAE_X0), 1e-4 * np.eye(6), TwoBody(), 1e-12 * np.eye(6),
                           maneuver_detection=det, initial_orbit_determination=False, adaptive_estimation=True)
        for j in range(self.pre):
            if self.sequential_step(nominal, "before", MMAE_PRE_FRACTIONS[j], False):
                raise RuntimeError("harness: detection before the scripted maneuver")
        if not self.sequential_step(nominal, "before", 10.0, False):
            raise RuntimeError("harness: the scripted maneuver is not a detection by the reference")
        if not (nominal.maneuver_detected and FilterFlag.ADAPTIVE_ESTIMATION_START in nominal.flags):
            return  # reported by mmae/before/decision
        cfg_cls = SMMAdaptiveEstimationConfig if self.est == "smm" else GPB1AdaptiveEstimationConfig
        cfg = cfg_cls(model_interval=int(MMAE_DT), observation_window=1, prune_threshold=MMAE_PRUNE_THRESHOLD,
                      prune_percentage=MMAE_PRUNE_PERCENTAGE)

        def opener():
            # what EstimateAgent._beginAdaptiveEstimation does
            self.af = _real(adaptiveEstimationFactory, cfg, nominal, ScenarioTime(MMAE_DT))
            if not _real(self.af.initialize, self.obs, JulianDate(_jd(REPORT_START, 0.0))):
                raise RuntimeError("harness: initialize() did not start adaptive estimation")

        self.where = "adaptive"
        self.inside_step(self.k == 1, opener)
        for j in range(2, self.k + 1):
            if self.gap and j == 2:
                self.unobserved_step(self.af, "inside")
            self.inside_step(j == self.k)
        # hand-back: what EstimateAgent._handleMMAE installs as the target's filter
        flt = self.af.converged_filter
        if self.rot % 3 == 2:
            flt = pickle.loads(pickle.dumps(flt))
        self.where = "converged"
        memory = self.kind != STANDARD
        self.state_case("handback", flt.maneuver_detection, memory)
        okc = type(flt.maneuver_detection).__name__ == METHOD_NAME[self.kind] and flt.maneuver_detection.threshold == self.alpha
        self.res.case("mmae/handback/detector_config", self.mk() if not okc else _EMPTY, okc,
                      signature=f"C17/{self.kind}/mmae/{self.est}/handback/detector_config",
                      observed=repr((type(flt.maneuver_detection).__name__, getattr(flt.maneuver_detection, "threshold", None))),
                      expected=repr((METHOD_NAME[self.kind], self.alpha)), item=self.item)
        post = _mmae_post_steps(self.kind, self.param)
        for j in range(post):
            if j == 2 and not self.gap:
                self.unobserved_step(flt, "after_handback")
            self.sequential_step(flt, "after_handback", MMAE_POST_FRACTIONS[(j + self.rot) % len(MMAE_POST_FRACTIONS)], memory)
        self.res.traces += 1
        self.res.states += self.calls


def _run_mmae(res, item):
    _fresh_db()
    _mmae_install_seams()
    est = item[4]
    rot = 0
    for n in MMAE_MODELS:
        for pre in MMAE_PRE:
            for k in MMAE_K:
                close = "gpb1" if est == "gpb1" else ("prune", "gate")[(rot + n) % 2]
                _MmaeTrace(res, item, n, pre, k, close, rot % 2 == 1, rot).run()
                rot += 1


def run_item(item):
    res = fw.Result()
    item = tuple(item)
    kind = item[0]
    try:
        if kind == "explore":
            _run_explore(res, item)
        elif kind == "stat":
            _run_stat(res, item)
        elif kind == "tie":
            _run_tie(res, item)
        elif kind == "misc":
            _run_misc(res, item)
        elif kind == "real":
            _run_real(res, item)
        elif kind == "mmae":
            _run_mmae(res, item)
        else:
            raise ValueError(kind)
    except _RealCallError as exc:
        # the implementation raised on an input of the announced lattice: the rest of this work item is abandoned
        res.case(
            "exception",
            {"item": list(item), "kind": item[1] if kind == "explore" else kind},
            False,
            signature=f"C17/{item[1] if kind == 'explore' else kind}/exception",
            observed=str(exc),
            expected="no exception for positive definite covariance, window 1..10, delta in (0,1), threshold in (0,1)",
            item=item,
        )
    return res


# ------------------------------------------------------------------------------------------------ cross-item oracle
def finalize(tier, seed, results):
    """The statistic has no unit: the runs of one (configuration, family) at different units give, step by step (all
    tree steps in breadth-first order, then nothing else; before them the five root tails to length 50), the same
    decisions and the same metric to rounding.  Reference run: unit 1."""
    groups = {}
    for r in results:
        tr = getattr(r, "unit_trace", None)
        if tr is not None:
            key, unit, dec, met, item = tr
            groups.setdefault(fw.stable_hash(key), {})[float(unit)] = (dec, met, item, key)
    out = fw.Result()
    steps = 0
    for _, members in sorted(groups.items()):
        if len(members) < 2 or 1.0 not in members:
            continue
        dec1, met1, _, key = members[1.0]
        for unit in sorted(u for u in members if u != 1.0):
            dec, met, item, _ = members[unit]
            where, obs, exp = None, None, None
            if len(dec) != len(dec1) or len(met) != len(met1):
                where, obs, exp = "length", len(dec), len(dec1)
            else:
                for j, (a, b, ma, mb) in enumerate(zip(dec, dec1, met, met1)):
                    same_dec = a == b or "?" in (a, b)
                    same_met = ma is not None and mb is not None and abs(ma - mb) <= UTOL * MTOL * max(abs(mb), 1e-300)
                    if not (same_dec and same_met):
                        where, obs, exp = j, {"detected": a, "metric": ma}, {"detected": b, "metric": mb}
                        break
                steps += len(dec)
            out.case(
                "units/invariance",
                {"kind": key[0], "alpha": key[1], "param": key[2], "family": key[3], "unit": unit, "first_difference_at_trace_step": where},
                where is None,
                nontrivial=True,
                signature=f"C17/{key[0]}/units/invariance/{'unit_small' if unit < 1.0 else 'unit_large'}",
                observed=obs,
                expected=exp,
                outcome="same" if where is None else "differs",
                item=item,
            )
    out.extra["unit_invariance_steps_compared"] = steps
    return out


def replay(rec):
    item = list(rec["item"])
    if "/units/invariance/" in rec.get("signature", "") and item and item[0] == "explore":
        return finalize(None, None, [run_item(item), run_item(item[:10] + [1.0])])
    return run_item(item)
