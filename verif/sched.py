"""Explorer B: every completion order of every parallel job batch of the real ``Scenario.stepForward``.

A *batch* is one ``JobExecutor.join()``: all its jobs are enqueued before the join, and the join merges results one at a
time in completion order.  The fake ray seam lets the explorer choose that order.  Job results are functions of their
pickled submission only (checked by memo re-execution), so the only schedule-dependent thing is the merge order inside
each batch.  The search is explicit-state: the canonical driver state is snapshotted after every join; for every batch
of the default run every permutation (Lehmer code) of that batch is replayed on a fresh scenario and must reach the same
canonical state at that join and at the end of the run.  If every batch has exactly one successor state, any
combination of permutations across batches reaches the same states by induction, so Σ n! replays cover Π n! schedules.
"""
from __future__ import annotations

import itertools
import re

from . import canon, fakeray
from . import scen  # noqa: F401  (installs fake ray)

from resonaate.parallel import JobExecutor  # noqa: E402

_orig_join = JobExecutor.join
_CURRENT = {"sc": None, "batches": None, "with_db": True}


def _hooked_join(self):
    rec = _CURRENT["batches"]
    if rec is None:
        return _orig_join(self)
    n = len(self._unfinished_jobs)  # noqa: SLF001
    start = len(fakeray.SCHED.trace)
    _orig_join(self)
    end = len(fakeray.SCHED.trace)
    entry = {"kind": type(self).__name__, "n": n, "start": start, "end": end}
    if n >= 2 and _CURRENT["sc"] is not None:
        entry["state"] = canon.scenario_state(_CURRENT["sc"], with_db=False)
    rec.append(entry)
    return None


JobExecutor.join = _hooked_join


class RunRecord:
    def __init__(self):
        self.batches = []
        self.step_states = []  # canonical state after each step (incl. DB)
        self.deliveries = []  # (step, func name, result)
        self.trace = []
        self.error = None
        self.step_info = []  # harness-collected per-step facts


def run(build_fn, n_steps, choices=(), per_step=None, with_db=True, stop_after_batch=None):
    """Build a fresh scenario, run ``n_steps`` of stepForward+saveDatabaseOutput under the given schedule choices."""
    rec = RunRecord()
    sc = build_fn()
    fakeray.set_schedule(list(choices))
    _CURRENT.update(sc=sc, batches=rec.batches, with_db=with_db)
    step_no = {"k": 0}
    fakeray.DELIVERY_HOOK = lambda name, result: rec.deliveries.append((step_no["k"], name, result))
    try:
        for k in range(n_steps):
            step_no["k"] = k
            sc.stepForward()
            if sc.clock.time % sc.output_time_step == 0:
                sc.saveDatabaseOutput()
            for b in rec.batches:
                b.setdefault("step", k)
            if per_step is not None:
                rec.step_info.append(per_step(sc, k, rec))
            rec.step_states.append(canon.scenario_state(sc, with_db=with_db))
    except Exception as exc:  # noqa: BLE001
        rec.error = f"{type(exc).__name__}: {exc}"
    finally:
        _CURRENT.update(sc=None, batches=None)
        fakeray.DELIVERY_HOOK = None
    rec.trace = list(fakeray.SCHED.trace)
    rec.scenario = sc
    return rec


def lehmer_codes(n, max_sum=None):
    """All choice sequences (c_1..c_{n-1}), c_i in range(n-i+1): one per permutation of n jobs.
    ``max_sum`` bounds the number of inversions (deviation bound) when n! is too large."""
    ranges = [range(n - i) for i in range(n - 1)]
    for code in itertools.product(*ranges):
        if max_sum is not None and sum(code) > max_sum:
            continue
        yield list(code)


def path_class(path: str) -> str:
    return re.sub(r"\d+", "*", path)


def default_exact(path: str) -> bool:
    """Truth states and bookkeeping must be bit-identical; estimates/filters/rewards may differ by rounding when the
    stacking order of simultaneous observations changes (the property says 'up to rounding')."""
    tolerant = ("/estimates", "estimate_ephemeri", "filterstep", "filter_step", "reward", "metric", "tasks", "boresight")
    return not any(t in path for t in tolerant)


def run_forked(build_fn, n_steps, choices=(), memo=False):
    """``run`` in a forked child with job memoisation off: the run starts from the parent's process image (like a fresh
    Ray cluster) and every job body really executes, in the order the schedule dictates, inside one process (like one
    Ray worker).  Returns (step_states, error, trace).  Used to expose worker-side hidden state (module-level caches,
    class-level queues) that makes a job's result depend on which jobs ran before it."""
    import os  # noqa: PLC0415
    import pickle  # noqa: PLC0415

    rfd, wfd = os.pipe()
    pid = os.fork()
    if pid == 0:
        code = 0
        try:
            os.close(rfd)
            fakeray.MEMO_ENABLED = memo
            if not memo:
                fakeray.MEMO.clear()
            rec = run(build_fn, n_steps, choices)
            payload = (rec.step_states, rec.error, rec.trace)
        except BaseException as exc:  # noqa: BLE001
            payload = ([], f"child: {type(exc).__name__}: {exc}", [])
            code = 3
        try:
            with os.fdopen(wfd, "wb") as fh:
                pickle.dump(payload, fh, protocol=4)
        finally:
            os._exit(code)
    os.close(wfd)
    with os.fdopen(rfd, "rb") as fh:
        data = fh.read()
    os.waitpid(pid, 0)
    return pickle.loads(data)
