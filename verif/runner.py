"""./check Cxx [--tier quick|thorough] [--replay FILE] [--jobs N]

Exit codes: 0 property held on everything explored (known findings are printed, not failed);
1 at least one violation not listed in known_findings.json (line ``VIOLATION property=<id> replay=<path>``);
2 harness error (nondeterminism, vacuous exploration, exception in the harness itself).
"""
from __future__ import annotations

import argparse
import importlib
import json
import multiprocessing as mp
import os
import sys
import time
import traceback

from . import framework as fw


def _import_prop(prop: str):
    return importlib.import_module(f"verif.props.{prop.lower()}")


def _check_repo_binding():
    import resonaate  # noqa: PLC0415

    path = os.path.realpath(resonaate.__file__)
    want = os.path.realpath(os.path.join(os.environ.get("VERIF_REPO", "/repo"), "src")) + "/"
    if not path.startswith(want):
        print(f"HARNESS-ERROR resonaate imported from {path}, expected {want}", flush=True)
        sys.exit(2)


_MOD = None


_LINES: set = set()
_FLUSHED = 0


def _linecov_install():
    """Development diagnostic (VERIF_LINECOV=<dir>, never set by a registered command): which lines of the library the
    check executes, via sys.monitoring LINE events that disable themselves after the first hit (negligible overhead)."""
    if not os.environ.get("VERIF_LINECOV") or not hasattr(sys, "monitoring"):
        return
    mon = sys.monitoring
    root = os.path.realpath(os.path.join(os.environ.get("VERIF_REPO", "/repo"), "src")) + os.sep
    try:
        mon.use_tool_id(mon.COVERAGE_ID, "verif-linecov")
    except ValueError:
        return  # already installed in this process (fork of an instrumented parent)

    d = os.environ["VERIF_LINECOV"]
    os.makedirs(d, exist_ok=True)
    fh = {}

    def on_line(code, line):
        if code.co_filename.startswith(root):
            # write-through, one file per process: checks that fork a child per run leave through os._exit
            pid = os.getpid()
            if pid not in fh:
                fh.clear()
                fh[pid] = open(os.path.join(d, f"{pid}.txt"), "a")  # noqa: SIM115
            fh[pid].write(f"{code.co_filename[len(root):]}:{line}\n")
            fh[pid].flush()
        return mon.DISABLE

    mon.register_callback(mon.COVERAGE_ID, mon.events.LINE, on_line)
    mon.set_events(mon.COVERAGE_ID, mon.events.LINE)


def _linecov_flush():
    global _FLUSHED  # noqa: PLW0603
    d = None  # superseded by the write-through in on_line
    if not d or len(_LINES) == _FLUSHED:
        return
    os.makedirs(d, exist_ok=True)
    with open(os.path.join(d, f"{os.getpid()}.txt"), "w") as fh:
        fh.write("\n".join(f"{f}:{n}" for f, n in sorted(_LINES)))
    _FLUSHED = len(_LINES)


def _worker_init(prop):
    global _MOD  # noqa: PLW0603
    _linecov_install()
    _MOD = _import_prop(prop)
    if hasattr(_MOD, "worker_init"):
        _MOD.worker_init()


def _library_frame(tb):
    """Innermost traceback frame that lies in the library under verification (None if the exception never entered it)."""
    root = os.path.realpath(os.path.join(os.environ.get("VERIF_REPO", "/repo"), "src")) + os.sep
    hit = None
    for fr in traceback.extract_tb(tb):
        if os.path.realpath(fr.filename).startswith(root):
            hit = fr
    return hit


def _worker_run(args):
    idx, item = args
    try:
        res = _MOD.run_item(item)
        _linecov_flush()
        return idx, res, None
    except Exception as exc:  # noqa: BLE001
        # An exception that escaped a check and was raised inside the library on an input of the announced lattice is a
        # finding about the library (every check is silent on the unchanged tree), not a harness failure: report it as a
        # violation with the work item as replay.  Exceptions that never entered library code stay harness errors.
        fr = _library_frame(exc.__traceback__)
        if fr is None:
            return idx, None, traceback.format_exc()
        res = fw.Result()
        where = f"{os.path.basename(fr.filename)}:{fr.name}"
        res.violate(
            "library_exception",
            {"work_item_index": idx, "raised_in": where, "line": fr.lineno},
            signature=f"{_MOD.PROPERTY}/library_exception/{type(exc).__name__}@{where}",
            observed=f"{type(exc).__name__}: {exc}"[:500],
            expected="no exception on an input of the enumerated lattice",
            item=item,
        )
        return idx, res, None


def run_check(prop: str, tier: str, seed: int, jobs: int) -> int:
    t0 = time.time()
    mod = _import_prop(prop)
    _check_repo_binding()
    items = list(mod.items(tier, seed))
    if not items:
        print("HARNESS-ERROR no work items", flush=True)
        return 2
    total = fw.Result()
    digests = {}
    errors = []
    per_item: list = [None] * len(items)
    if jobs > 1 and len(items) > 1 and not getattr(mod, "SERIAL", False):
        ctx = mp.get_context("fork")
        with ctx.Pool(min(jobs, len(items)), initializer=_worker_init, initargs=(prop,)) as pool:
            for idx, res, err in pool.imap_unordered(_worker_run, list(enumerate(items)), chunksize=1):
                if err:
                    errors.append((idx, err))
                else:
                    per_item[idx] = res
    else:
        _worker_init(prop)
        for idx, item in enumerate(items):
            idx, res, err = _worker_run((idx, item))
            if err:
                errors.append((idx, err))
            else:
                per_item[idx] = res
    if errors:
        for idx, err in errors[:3]:
            print(f"HARNESS-ERROR item {idx} raised:\n{err}", flush=True)
        return 2
    for idx, res in enumerate(per_item):  # merge in item order => order independent of scheduling
        digests[idx] = res.digest()
        total.merge(res)
    if hasattr(mod, "finalize"):
        extra = mod.finalize(tier, seed, per_item)
        if extra is not None:
            total.merge(extra)

    nondet = None
    # determinism self-check: replay first and a middle item in this (fresh w.r.t. those items) process
    if not getattr(mod, "SKIP_DETERMINISM", False):
        _worker_init(prop)
        for idx in sorted({0, len(items) // 2}):
            _, res, err = _worker_run((idx, items[idx]))
            if err or res.digest() != digests[idx]:
                # decided after the violations have been printed: a library whose answer depends on what the process
                # computed before (a stale memo, state carried over) shows up here first, and the violations found in
                # the same run are the finding to report then, not a harness failure
                nondet = f"nondeterministic replay of item {idx}: {err or 'digest differs'}"
                break

    known = fw.load_known_findings(prop)
    new, matched = [], {}
    for v in total.violations:
        entry = next((e for e in known if fw.finding_matches(e, v)), None)
        if entry is None:
            new.append(v)
        else:
            matched.setdefault(entry["id"], (entry, []))[1].append(v)

    rc = 0
    for fid, (entry, vs) in sorted(matched.items()):
        n = sum(total.violation_counts[s] for s in {v["signature"] for v in vs})
        print(f"KNOWN-FINDING: property={prop} {fid}: {entry['what']} [{n} cases this run]", flush=True)
    replay_dir = os.path.join(fw.OUT_ROOT, "replays", prop)
    seen_sig = set()
    for v in new:
        rc = 1
        os.makedirs(replay_dir, exist_ok=True)
        rec = {"property": prop, "tier": tier, "seed": seed, **v}
        name = f"{fw.stable_hash([v['signature'], v['case']])}.json"
        path = os.path.join(replay_dir, name)
        with open(path, "w") as fh:
            json.dump(rec, fh, indent=1, sort_keys=True)
        if v["signature"] not in seen_sig:
            seen_sig.add(v["signature"])
            print(
                f"  violation signature={v['signature']} count={total.violation_counts[v['signature']]} "
                f"case={json.dumps(v['case'], sort_keys=True)[:400]} observed={json.dumps(v['observed'])[:300]} "
                f"expected={json.dumps(v['expected'])[:300]}",
                flush=True,
            )
        print(f"VIOLATION property={prop} replay={path}", flush=True)

    vacuous = total.distinct_nontrivial < getattr(mod, "EXPECT_MIN_NONTRIVIAL", 2)
    wall = time.time() - t0
    coverage = {
        "evaluations": total.evaluations,
        "distinct_nontrivial": total.distinct_nontrivial,
        "rule": mod.RULE,
        "samples": total.samples[: fw.MAX_SAMPLES] or [{"note": "no sample recorded"}],
        "states": max(total.states, 0),
        "transitions": max(total.transitions, 0),
        "traces_validated_against_impl": total.traces,
        "exhaustive": not total.caps,
        "subchecks": dict(sorted(total.subchecks.items())),
        "distinct_outcomes": len(total.outcomes),
        "outcomes": dict(sorted(total.outcomes.items())[:60]),
        "either_way_boundary_cases": total.either_way,
        "work_items": len(items),
        "known_findings_reported": sorted(matched),
        "violation_signatures": dict(sorted(total.violation_counts.items())),
    }
    if total.states == 0:
        # lattice explorers: every evaluated lattice point is a state of the enumerated space, every call of the
        # implementation a transition; reported so that both key sets of the schema are measured numbers.
        coverage["states"] = total.evaluations
        coverage["transitions"] = total.evaluations
        coverage["traces_validated_against_impl"] = total.evaluations
    if total.caps:
        coverage["cap"] = total.caps[:10]
    if hasattr(mod, "bounds"):
        coverage["bounds"] = fw.jsonable(mod.bounds(tier, seed))
    coverage.update(fw.jsonable(total.extra))
    evidence = {
        "property_id": prop,
        "tier": tier,
        "seed": seed,
        "level": mod.LEVEL,
        "coverage": coverage,
        "assumptions": list(getattr(mod, "ASSUMPTIONS", [])),
        "wall_s": round(wall, 2),
        "violations": len(new),
    }
    os.makedirs(os.path.join(fw.OUT_ROOT, "evidence"), exist_ok=True)
    with open(os.path.join(fw.OUT_ROOT, "evidence", f"{prop}.json"), "w") as fh:
        json.dump(evidence, fh, indent=1, sort_keys=True)
        fh.write("\n")
    print(
        f"{prop} tier={tier} seed={seed} evaluations={total.evaluations} distinct_nontrivial={total.distinct_nontrivial} "
        f"states={coverage['states']} transitions={coverage['transitions']} outcomes={len(total.outcomes)} "
        f"violations_new={len(new)} known={len(matched)} wall={wall:.1f}s",
        flush=True,
    )
    if nondet:
        if rc == 0:
            print(f"HARNESS-ERROR {nondet}", flush=True)
            return 2
        print(f"NOTE {nondet} (the same work item gave different observations in two processes with different "
              f"histories; violations above stand)", flush=True)
    if rc == 0 and vacuous:
        print(f"HARNESS-ERROR vacuous exploration: distinct_nontrivial={total.distinct_nontrivial}", flush=True)
        return 2
    return rc


def run_replay(prop: str, path: str) -> int:
    mod = _import_prop(prop)
    _check_repo_binding()
    with open(path) as fh:
        rec = json.load(fh)
    _worker_init(prop)
    if hasattr(mod, "replay"):
        res = mod.replay(rec)
    else:
        res = mod.run_item(rec["item"])
    hits = [v for v in res.violations if v["signature"] == rec["signature"] and v["case"] == rec["case"]]
    if not hits:
        hits = [v for v in res.violations if v["signature"] == rec["signature"]]
    if hits:
        print(f"replay reproduces: signature={rec['signature']} observed={json.dumps(hits[0]['observed'])[:400]}")
        print(f"VIOLATION property={prop} replay={path}")
        return 1
    print(f"replay of {path}: no violation with signature {rec['signature']}")
    return 0


def main(argv=None):
    ap = argparse.ArgumentParser()
    ap.add_argument("prop")
    ap.add_argument("--tier", default=os.environ.get("VERIF_TIER", "quick"), choices=["quick", "thorough"])
    ap.add_argument("--replay")
    ap.add_argument("--jobs", type=int, default=int(os.environ.get("VERIF_JOBS", "16")))
    ap.add_argument("--seed", type=int, default=None)
    args = ap.parse_args(argv)
    seed = args.seed if args.seed is not None else int(os.environ.get("VERIF_SEED", "0") or 0)
    prop = args.prop.upper()
    try:
        if args.replay:
            return run_replay(prop, args.replay)
        return run_check(prop, args.tier, seed, args.jobs)
    except SystemExit:
        raise
    except Exception:  # noqa: BLE001
        print("HARNESS-ERROR\n" + traceback.format_exc(), flush=True)
        return 2


if __name__ == "__main__":
    sys.exit(main())
