"""Common machinery for all checks: result accumulation, evidence, known findings, replay.

A property module ``verif/props/cXX.py`` defines

    PROPERTY   = "C05"
    LEVEL      = "exploration" | "model_checking" | "fault_enumeration"
    RULE       = "how cases are enumerated and what makes one non-trivial"
    ASSUMPTIONS = ["..."]
    EXPECT_MIN_NONTRIVIAL = 2            # below this the run is vacuous -> exit 2
    def items(tier: str, seed: int) -> list      # picklable work items, deterministic
    def run_item(item) -> Result                 # executed in a worker process on the real code
    # optional:
    def finalize(tier, seed, results: list[Result]) -> Result | None   # cross-item oracle
    def bounds(tier, seed) -> dict               # alphabet / bound description copied into the evidence

Every elemental case goes through ``Result.case(...)``; nothing is sampled: ``items`` enumerates the whole
announced lattice / schedule space / history space and ``evaluations`` counts what really ran.
"""
from __future__ import annotations

import fnmatch
import hashlib
import json
import math
import os
from collections import Counter

import numpy as np

VERIF_ROOT = os.path.dirname(os.path.dirname(os.path.abspath(__file__)))
# evidence/replays land in /verif unless a development run targets a scratch tree (VERIF_REPO != /repo)
_dev_repo = os.environ.get("VERIF_REPO", "/repo")
OUT_ROOT = VERIF_ROOT if os.path.realpath(_dev_repo) == "/repo" else os.path.join("/tmp/verif_dev", os.path.basename(os.path.realpath(_dev_repo)))
MAX_KEPT_PER_SIGNATURE = 3
MAX_SAMPLES = 6


def jsonable(obj):
    """Convert numpy / tuples / sets to plain JSON-compatible values (deterministically)."""
    if isinstance(obj, dict):
        return {str(k): jsonable(v) for k, v in obj.items()}
    if isinstance(obj, (list, tuple)):
        return [jsonable(v) for v in obj]
    if isinstance(obj, (set, frozenset)):
        return sorted(jsonable(v) for v in obj)
    if isinstance(obj, np.ndarray):
        return jsonable(obj.tolist())
    if isinstance(obj, (np.bool_,)):
        return bool(obj)
    if isinstance(obj, np.integer):
        return int(obj)
    if isinstance(obj, (float, np.floating)):
        f = float(obj)
        if math.isnan(f):
            return "nan"
        if math.isinf(f):
            return "inf" if f > 0 else "-inf"
        return f
    if isinstance(obj, (str, int, bool)) or obj is None:
        return obj
    if isinstance(obj, bytes):
        return obj.hex()
    return repr(obj)


def stable_hash(obj) -> str:
    return hashlib.sha256(json.dumps(jsonable(obj), sort_keys=True).encode()).hexdigest()[:16]


class Result:
    """Accumulates what one work item covered."""

    def __init__(self):
        self.evaluations = 0
        self.nontrivial_keys: set[str] = set()
        self.nontrivial_count = 0  # for cases that are distinct by construction (lattice points)
        self.violations: list[dict] = []
        self.violation_counts: Counter = Counter()
        self.samples: list = []
        self.states = 0
        self.transitions = 0
        self.traces = 0
        self.outcomes: Counter = Counter()
        self.subchecks: Counter = Counter()
        self.caps: list[str] = []
        self.either_way = 0
        self._digest = hashlib.sha256()
        self.extra: dict = {}

    # ------------------------------------------------------------------ recording
    def observe(self, *values):
        """Feed observed values into the determinism digest."""
        if isinstance(self._digest, str):
            raise RuntimeError("observe() after the result was serialised")
        for v in values:
            if isinstance(v, np.ndarray):
                self._digest.update(np.ascontiguousarray(v).tobytes())
            else:
                self._digest.update(repr(v).encode())

    def case(
        self,
        subcheck: str,
        case: dict,
        ok: bool,
        *,
        nontrivial: bool = False,
        key=None,
        signature: str | None = None,
        observed=None,
        expected=None,
        outcome=None,
        item=None,
        sample: bool = False,
    ):
        """Record one elemental case.

        ``key`` (hashable/str) identifies the case for distinct counting; if None the case is assumed distinct by
        construction (enumerated lattice point).  ``signature`` characterises the *region* a violation lies in; it
        is what known findings are matched on.  ``item`` is the work item needed to replay it.
        """
        self.evaluations += 1
        self.subchecks[subcheck] += 1
        if outcome is not None:
            self.outcomes[f"{subcheck}:{outcome}"] += 1
        if nontrivial:
            if key is None:
                self.nontrivial_count += 1
            else:
                self.nontrivial_keys.add(f"{subcheck}|{key}")
        if (sample or (nontrivial and len(self.samples) < 2)) and len(self.samples) < MAX_SAMPLES:
            self.samples.append({"subcheck": subcheck, "case": jsonable(case)})
        if not ok:
            sig = signature or subcheck
            self.violation_counts[sig] += 1
            kept = sum(1 for v in self.violations if v["signature"] == sig)
            if kept < MAX_KEPT_PER_SIGNATURE:
                self.violations.append(
                    {
                        "subcheck": subcheck,
                        "signature": sig,
                        "case": jsonable(case),
                        "observed": jsonable(observed),
                        "expected": jsonable(expected),
                        "item": jsonable(item),
                    }
                )
        return ok

    def violate(self, subcheck, case, **kw):
        return self.case(subcheck, case, False, **kw)

    def cap(self, text: str):
        self.caps.append(text)

    def digest(self) -> str:
        base = self._digest if isinstance(self._digest, str) else self._digest.hexdigest()
        tail = repr((self.evaluations, sorted(self.violation_counts.items()), sorted(self.outcomes.items())))
        return hashlib.sha256((base + tail).encode()).hexdigest()

    def __getstate__(self):
        state = dict(self.__dict__)
        if not isinstance(state["_digest"], str):
            state["_digest"] = state["_digest"].hexdigest()
        return state

    # ------------------------------------------------------------------ merging
    def merge(self, other: "Result"):
        self.evaluations += other.evaluations
        self.nontrivial_keys |= other.nontrivial_keys
        self.nontrivial_count += other.nontrivial_count
        self.violation_counts.update(other.violation_counts)
        for v in other.violations:
            kept = sum(1 for w in self.violations if w["signature"] == v["signature"])
            if kept < MAX_KEPT_PER_SIGNATURE:
                self.violations.append(v)
        for s in other.samples:
            if len(self.samples) < MAX_SAMPLES:
                self.samples.append(s)
        self.states += other.states
        self.transitions += other.transitions
        self.traces += other.traces
        self.outcomes.update(other.outcomes)
        self.subchecks.update(other.subchecks)
        self.caps.extend(other.caps)
        self.either_way += other.either_way
        for k, v in other.extra.items():
            if isinstance(v, (int, float)) and isinstance(self.extra.get(k, 0), (int, float)):
                self.extra[k] = self.extra.get(k, 0) + v
            else:
                self.extra.setdefault(k, v)

    @property
    def distinct_nontrivial(self) -> int:
        return len(self.nontrivial_keys) + self.nontrivial_count


# ---------------------------------------------------------------------- known findings
def load_known_findings(prop: str) -> list[dict]:
    path = os.path.join(VERIF_ROOT, "known_findings.json")
    if not os.path.exists(path):
        return []
    with open(path) as fh:
        data = json.load(fh)
    return [e for e in data.get("findings", []) if e.get("property") == prop]


def _pred_ok(value, cond) -> bool:
    if isinstance(cond, dict):
        for op, ref in cond.items():
            if op == "eq" and value != ref:
                return False
            if op == "ne" and value == ref:
                return False
            if op == "in" and value not in ref:
                return False
            if op == "ge" and not (value is not None and value >= ref):
                return False
            if op == "le" and not (value is not None and value <= ref):
                return False
            if op == "gt" and not (value is not None and value > ref):
                return False
            if op == "lt" and not (value is not None and value < ref):
                return False
            if op == "glob" and not fnmatch.fnmatchcase(str(value), ref):
                return False
        return True
    return value == cond


def finding_matches(entry: dict, violation: dict) -> bool:
    """A known finding suppresses a violation iff status is 'open', the signature glob matches and every
    predicate over the violation's ``case`` fields holds.  'fixed' entries match nothing."""
    if entry.get("status", "open") != "open":
        return False
    if not fnmatch.fnmatchcase(violation["signature"], entry["signature"]):
        return False
    case = violation.get("case") or {}
    for field, cond in (entry.get("where") or {}).items():
        if field not in case:
            return False
        if not _pred_ok(case[field], cond):
            return False
    return True


# ---------------------------------------------------------------------- helpers for lattices
def chunked(seq, n):
    seq = list(seq)
    return [seq[i : i + n] for i in range(0, len(seq), n)]


def relerr(a, b, floor=0.0):
    a = np.asarray(a, dtype=float)
    b = np.asarray(b, dtype=float)
    return float(np.max(np.abs(a - b)) / max(float(np.max(np.abs(b))), floor, 1e-300))


def maxabs(a, b=None):
    a = np.asarray(a, dtype=float)
    if b is not None:
        a = a - np.asarray(b, dtype=float)
    if a.size == 0:
        return 0.0
    return float(np.max(np.abs(a)))
