"""Independent reference for C15: thrust laws and a piecewise integration with thrust switched on only inside
the configured interval(s).

Written from the docstrings of the thrust functions (ECI vector; NTW vector with N = T x W, T along the velocity,
W along the orbit normal; spiral = magnitude along T; plane change = magnitude along +W in the northern (z >= 0) and
-W in the southern hemisphere), not from their code.  The gravity derivative is supplied by the caller (the
library's own ``_differentialEquation`` with no thrust armed - gravity is the subject of other properties).

The integration is split at every burn start / end, every requested output time, every impulse and (for
plane-change thrust) every crossing of the equatorial plane, so the DOP853 integrator never steps over a
discontinuity of the right-hand side.
"""
from __future__ import annotations

import numpy as np
from scipy.integrate import solve_ivp

RTOL = 1e-11
ATOL = 1e-13


def ntw_basis(r, v):
    r = np.asarray(r, dtype=float)
    v = np.asarray(v, dtype=float)
    t_hat = v / np.sqrt(v @ v)
    h = np.array([r[1] * v[2] - r[2] * v[1], r[2] * v[0] - r[0] * v[2], r[0] * v[1] - r[1] * v[0]])
    w_hat = h / np.sqrt(h @ h)
    n_hat = np.array(
        [
            t_hat[1] * w_hat[2] - t_hat[2] * w_hat[1],
            t_hat[2] * w_hat[0] - t_hat[0] * w_hat[2],
            t_hat[0] * w_hat[1] - t_hat[1] * w_hat[0],
        ]
    )
    return n_hat, t_hat, w_hat


def thrust_acc(spec, y, hemisphere=None):
    """ECI acceleration (3,) of thrust ``spec`` at state ``y``.

    spec = {"kind": "eci"|"ntw", "acc": [a0, a1, a2]} or {"kind": "spiral"|"plane_change", "mag": m}.
    ``hemisphere`` (+1/-1) overrides the sign rule of the plane-change law (used inside an integration segment that is
    known to lie on one side of the equatorial plane).
    """
    kind = spec["kind"]
    if kind == "eci":
        return np.array(spec["acc"], dtype=float)
    n_hat, t_hat, w_hat = ntw_basis(y[:3], y[3:6])
    if kind == "ntw":
        a = spec["acc"]
        return a[0] * n_hat + a[1] * t_hat + a[2] * w_hat
    if kind == "spiral":
        return spec["mag"] * t_hat
    if kind == "plane_change":
        s = hemisphere if hemisphere is not None else (1.0 if y[2] >= 0.0 else -1.0)
        return s * spec["mag"] * w_hat
    raise ValueError(kind)


def _segment(gravity, y, a, b, active):
    """Integrate from a to b with the burns in ``active`` switched on for the whole segment."""
    needs_plane = any(s["kind"] == "plane_change" for s in active)
    t = a
    guard = 0
    while t < b:
        guard += 1
        if guard > 50:
            raise RuntimeError("oracle: too many equatorial crossings in one segment")
        hemi = None
        events = None
        if needs_plane:
            z, vz = y[2], y[5]
            hemi = 1.0 if (z > 0.0 or (z == 0.0 and vz >= 0.0)) else -1.0

            def zcross(_t, yy):
                return yy[2]

            zcross.terminal = True
            zcross.direction = -hemi  # leaving the current hemisphere
            events = [zcross]

        def rhs(tt, yy, hemi=hemi):
            d = np.array(gravity(tt, yy), dtype=float)
            for s in active:
                d[3:6] += thrust_acc(s, yy, hemisphere=hemi)
            return d

        sol = solve_ivp(rhs, (t, b), y, method="DOP853", rtol=RTOL, atol=ATOL, events=events)
        if not sol.success:
            raise RuntimeError(f"oracle integration failed: {sol.message}")
        y = sol.y[:, -1].copy()
        if sol.status == 1:  # stopped on the equatorial plane: continue in the other hemisphere
            t = float(sol.t[-1])
            y[2] = 0.0
            # make the side unambiguous for the restart
            if y[5] == 0.0:
                raise RuntimeError("oracle: tangential equatorial crossing")
        else:
            t = b
    return y


def impulse_dv(y, dv, frame="eci"):
    """ECI velocity increment of an impulse ``dv`` given in ``frame`` ("eci" | "ntw") at the state ``y`` it finds:
    NTW components are (N, T, W) along the same basis as the NTW thrust law."""
    dv = np.asarray(dv, dtype=float)
    if frame == "eci":
        return dv.copy()
    if frame == "ntw":
        n_hat, t_hat, w_hat = ntw_basis(y[:3], y[3:6])
        return dv[0] * n_hat + dv[1] * t_hat + dv[2] * w_hat
    raise ValueError(frame)


def integrate(gravity, y0, t0, out_times, burns, impulses=()):
    """Reference states at ``out_times`` (ascending, > t0).

    burns: iterable of (t_start, t_end, spec) - thrust is applied for t in [t_start, t_end] only.
    impulses: iterable of (t, dv3) or (t, dv3, frame) - velocity increment applied once, at t, in the ECI (default)
        or the NTW frame of the state at that instant.
    Returns {out_time: state(6,)}.
    """
    out_times = [float(t) for t in out_times]
    t_end = out_times[-1]
    pts = {float(t0), *out_times}
    for ts, te, _ in burns:
        for t in (float(ts), float(te)):
            if t0 < t < t_end:
                pts.add(t)
    impulses = [(float(p[0]), np.asarray(p[1], dtype=float), p[2] if len(p) > 2 else "eci") for p in impulses]
    for ti, _, _ in impulses:
        if t0 < ti < t_end:
            pts.add(ti)
    pts = sorted(pts)
    y = np.array(y0, dtype=float)
    res = {}
    imp = sorted(impulses, key=lambda p: p[0])
    for a, b in zip(pts[:-1], pts[1:]):
        for ti, dv, frame in imp:
            if ti == a:
                y = y.copy()
                y[3:6] += impulse_dv(y, dv, frame)
        mid = 0.5 * (a + b)
        active = [spec for ts, te, spec in burns if float(ts) <= mid <= float(te)]
        y = _segment(gravity, y, a, b, active)
        if b in out_times:
            yy = y.copy()
            for ti, dv, frame in imp:  # an impulse exactly on an output time is part of the state reported at that time
                if ti == b:
                    yy[3:6] += impulse_dv(yy, dv, frame)
            res[b] = yy
    return res
