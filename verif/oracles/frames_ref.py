"""Independent reference model for C04: IAU-76/FK5 reduction, calendar / sidereal time, geodesy, SEZ, az/el, RSW/NTW.

Everything here is written from the published formulae (Vallado 4th ed. ch. 3/4, IAU 1976/1980/1982 resolutions)
with plain ``math``/``fractions`` code and *no* import of the functions under test.  Only the two bundled data tables
(EOPdata.dat, nut80.dat) are shared with the implementation - they are parsed here with an own parser.
"""
from __future__ import annotations

import math
import os
from datetime import date, datetime
from fractions import Fraction

import numpy as np

PI = math.pi
TWOPI = 2.0 * math.pi
ARCSEC = math.pi / 648000.0  # rad per arc second
DEG = math.pi / 180.0

# physical constants (own literals; the check asserts that the implementation's Earth constants equal these)
R_EARTH = 6378.1363  # km, equatorial radius
ECC_EARTH = 0.081819221456  # first eccentricity of the reference ellipsoid
OMEGA_EARTH = 7.292115146706979e-5  # rad/s, inertial rotation rate (Vallado eq 3-40 without LOD)
# mean sidereal rotation (w.r.t. the moving equinox), IAU-82 GMST rate: revolutions per UT1 day at J2000
SIDEREAL_REV_PER_DAY = 1.002737909350795

_ORD_J2000 = date(2000, 1, 1).toordinal()  # 2000-01-01 00:00; J2000.0 is 12:00 of that day


def _data_path(*parts):
    import resonaate  # noqa: PLC0415  (only used to locate the data files of the tree under test)

    return os.path.join(os.path.dirname(os.path.abspath(resonaate.__file__)), "physics", "data", *parts)


# ------------------------------------------------------------------------------------------ data tables
_EOP = None
_NUT = None


def eop_table():
    """{date: dict(row fields as written in the file)}; own parse, one entry per line, duplicates rejected."""
    global _EOP  # noqa: PLW0603
    if _EOP is None:
        tab = {}
        order = []
        with open(_data_path("eop", "EOPdata.dat"), encoding="utf-8") as fh:
            for line in fh:
                tok = line.split()
                if not tok:
                    continue
                d = date(int(tok[0]), int(tok[1]), int(tok[2]))
                if d in tab:
                    raise ValueError(f"duplicate EOP row {d}")
                tab[d] = {
                    "mjd": int(tok[3]),
                    "xp_as": float(tok[4]),
                    "yp_as": float(tok[5]),
                    "dut1": float(tok[6]),
                    "lod": float(tok[7]),
                    "dpsi_as": float(tok[8]),
                    "deps_as": float(tok[9]),
                    "dat": int(float(tok[12])),
                }
                order.append(d)
        _EOP = (tab, order)
    return _EOP


def nut80_table():
    """list of (l, l', F, D, Om, A, B, C, D) with A..D in 1e-4 arcsec (own parse of nut80.dat)."""
    global _NUT  # noqa: PLW0603
    if _NUT is None:
        rows = []
        with open(_data_path("nutation", "nut80.dat"), encoding="utf-8") as fh:
            for line in fh:
                tok = line.split()
                if not tok:
                    continue
                rows.append(tuple(int(t) for t in tok[:5]) + tuple(float(t) for t in tok[5:9]))
        _NUT = rows
    return _NUT


# ------------------------------------------------------------------------------------------ calendar
def is_leap(year: int) -> bool:
    return (year % 4 == 0 and year % 100 != 0) or year % 400 == 0


def day_of_year_fraction(dt: datetime, extra_seconds: float = 0.0) -> float:
    """1-based fractional day of year by ordinal arithmetic."""
    doy = dt.toordinal() - date(dt.year, 1, 1).toordinal() + 1
    return doy + (dt.hour * 3600 + dt.minute * 60 + dt.second + dt.microsecond / 1e6 + extra_seconds) / 86400.0


def days_since_j2000(dt: datetime, extra_seconds=0) -> Fraction:
    """Exact (rational) days from J2000.0 to ``dt`` + extra seconds, on a uniform 86400 s/day count."""
    secs = Fraction(dt.hour * 3600 + dt.minute * 60 + dt.second) + Fraction(dt.microsecond, 10**6)
    secs += Fraction(extra_seconds)
    return Fraction(dt.toordinal() - _ORD_J2000) - Fraction(1, 2) + secs / 86400


def gmst_exact(days_j2000: Fraction) -> float:
    """IAU-82 GMST (Vallado eq 3-47) evaluated in rational arithmetic, radians in [0, 2pi)."""
    t = Fraction(days_j2000) / 36525
    sec = (
        Fraction("67310.54841")
        + (Fraction(876600) * 3600 + Fraction("8640184.812866")) * t
        + Fraction("0.093104") * t**2
        - Fraction("6.2e-6") * t**3
    )
    sec = sec % 86400
    return float(sec) / 86400.0 * TWOPI


def gmst_almanac(dt: datetime, extra_seconds: float = 0.0) -> float:
    """Second, differently organised source: GMST at 0h UT1 (Aoki 1982) plus UT1 times the sidereal/solar ratio."""
    tu = Fraction(dt.toordinal() - _ORD_J2000) - Fraction(1, 2)  # days at 0h
    tu = tu / 36525
    g0 = Fraction("24110.54841") + Fraction("8640184.812866") * tu + Fraction("0.093104") * tu**2 - Fraction("6.2e-6") * tu**3
    ratio = Fraction("1.002737909350795") + Fraction("5.9006e-11") * tu - Fraction("5.9e-15") * tu**2
    ut = Fraction(dt.hour * 3600 + dt.minute * 60 + dt.second) + Fraction(dt.microsecond, 10**6) + Fraction(extra_seconds)
    sec = (g0 + ratio * ut) % 86400
    return float(sec) / 86400.0 * TWOPI


# ------------------------------------------------------------------------------------------ rotations
def rot_axis(axis: int, angle: float) -> np.ndarray:
    """Frame (passive) rotation about coordinate axis 0/1/2 by Rodrigues' formula: c I + (1-c) e e^T - s [e]x."""
    e = [0.0, 0.0, 0.0]
    e[axis] = 1.0
    c, s = math.cos(angle), math.sin(angle)
    ex = cross_matrix(e)
    out = np.zeros((3, 3))
    for i in range(3):
        for j in range(3):
            out[i, j] = (c if i == j else 0.0) + (1.0 - c) * e[i] * e[j] - s * ex[i][j]
    return out


def cross(a, b):
    return [a[1] * b[2] - a[2] * b[1], a[2] * b[0] - a[0] * b[2], a[0] * b[1] - a[1] * b[0]]


def cross_matrix(w):
    """[w]x such that [w]x v = w x v, built from the cross product with the unit vectors (columns)."""
    cols = [cross(w, e) for e in ((1.0, 0.0, 0.0), (0.0, 1.0, 0.0), (0.0, 0.0, 1.0))]
    return [[cols[j][i] for j in range(3)] for i in range(3)]


def angle_diff(a, b):
    """a - b wrapped to (-pi, pi]."""
    d = math.fmod(a - b, TWOPI)
    if d > PI:
        d -= TWOPI
    elif d <= -PI:
        d += TWOPI
    return d


def rotation_angle(mat) -> float:
    """Rotation angle of a 3x3 rotation matrix, accurate for small angles (uses the antisymmetric part)."""
    m = np.asarray(mat, dtype=float)
    vx, vy, vz = m[2, 1] - m[1, 2], m[0, 2] - m[2, 0], m[1, 0] - m[0, 1]
    s = 0.5 * math.sqrt(vx * vx + vy * vy + vz * vz)
    c = 0.5 * (m[0, 0] + m[1, 1] + m[2, 2] - 1.0)
    return math.atan2(s, c)


# ------------------------------------------------------------------------------------------ FK5 reduction
class FK5:
    """Reference IAU-76/FK5 reduction for one instant, built from explicit EOP values."""

    def __init__(self, dt: datetime, xp, yp, dut1, lod, dpsi, deps, dat):
        self.dt = dt
        # --- time scales
        self.tt_seconds_of_day = dt.hour * 3600 + dt.minute * 60 + dt.second + dt.microsecond / 1e6 + dat + 32.184
        d_tt = days_since_j2000(dt, Fraction(dat) + Fraction("32.184"))
        self.ttt = float(d_tt / 36525)
        t = self.ttt
        # --- precession (IAU 1976), arc seconds
        zeta = (2306.2181 * t + 0.30188 * t * t + 0.017998 * t**3) * ARCSEC
        theta = (2004.3109 * t - 0.42665 * t * t - 0.041833 * t**3) * ARCSEC
        z = (2306.2181 * t + 1.09468 * t * t + 0.018203 * t**3) * ARCSEC
        self.prec = rot_axis(2, zeta) @ rot_axis(1, -theta) @ rot_axis(2, z)  # MOD -> J2000
        # --- nutation (IAU 1980)
        eps_bar = (84381.448 - 46.8150 * t - 0.00059 * t * t + 0.001813 * t**3) * ARCSEC
        r = 360.0
        m_moon = 134.96298139 + (1325 * r + 198.8673981) * t + 0.0086972 * t * t + 1.78e-5 * t**3
        m_sun = 357.52772333 + (99 * r + 359.0503400) * t - 0.0001603 * t * t - 3.3e-6 * t**3
        u_moon = 93.27191028 + (1342 * r + 82.0175381) * t - 0.0036825 * t * t + 3.1e-6 * t**3
        d_sun = 297.85036306 + (1236 * r + 307.1114800) * t - 0.0019142 * t * t + 5.3e-6 * t**3
        om_moon = 125.04452222 - (5 * r + 134.1362608) * t + 0.0020708 * t * t + 2.2e-6 * t**3
        args = [math.radians(math.fmod(a, 360.0)) for a in (m_moon, m_sun, u_moon, d_sun, om_moon)]
        dpsi80 = 0.0
        deps80 = 0.0
        for a1, a2, a3, a4, a5, ca, cb, cc, cd in nut80_table():
            arg = a1 * args[0] + a2 * args[1] + a3 * args[2] + a4 * args[3] + a5 * args[4]
            dpsi80 += (ca + cb * t) * math.sin(arg)
            deps80 += (cc + cd * t) * math.cos(arg)
        self.dpsi = dpsi80 * 1e-4 * ARCSEC + dpsi
        self.deps = deps80 * 1e-4 * ARCSEC + deps
        self.eps_bar = eps_bar
        eps = eps_bar + self.deps
        self.nut = rot_axis(0, -eps_bar) @ rot_axis(2, self.dpsi) @ rot_axis(0, eps)  # TOD -> MOD
        # --- sidereal time (IAU 1982 GMST of UT1, 1994 equation of the equinoxes with the two extra terms)
        self.eq_equinox = self.dpsi * math.cos(eps_bar)
        jd_tt = 2451545.0 + t * 36525.0
        if jd_tt > 2450449.5:
            self.eq_equinox += (0.00264 * math.sin(args[4]) + 0.000063 * math.sin(2.0 * args[4])) * ARCSEC
        self.gmst = gmst_exact(days_since_j2000(dt, Fraction(dut1)))
        self.gast = math.fmod(self.gmst + self.eq_equinox, TWOPI)
        self.sidereal = rot_axis(2, -self.gast)  # PEF -> TOD
        # --- polar motion
        self.polar = rot_axis(0, yp) @ rot_axis(1, xp)  # ITRF -> PEF
        self.pn = self.prec @ self.nut
        self.pnr = self.pn @ self.sidereal  # PEF -> GCRF
        self.ecef2eci_mat = self.pnr @ self.polar
        self.lod = lod
        self.dut1 = dut1
        self.omega = [0.0, 0.0, OMEGA_EARTH * (1.0 - lod / 86400.0)]

    @classmethod
    def from_table(cls, dt: datetime):
        row = eop_table()[0][dt.date()]
        return cls(
            dt,
            row["xp_as"] * ARCSEC,
            row["yp_as"] * ARCSEC,
            row["dut1"],
            row["lod"],
            row["dpsi_as"] * ARCSEC,
            row["deps_as"] * ARCSEC,
            row["dat"],
        )

    def ecef_to_eci(self, x):
        x = np.asarray(x, dtype=float)
        r_pef = self.polar @ x[:3]
        v_pef = self.polar @ x[3:] + np.array(cross(self.omega, r_pef))
        return np.concatenate((self.pnr @ r_pef, self.pnr @ v_pef))

    def eci_to_ecef(self, x):
        x = np.asarray(x, dtype=float)
        r_pef = self.pnr.T @ x[:3]
        v_pef = self.pnr.T @ x[3:] - np.array(cross(self.omega, r_pef))
        return np.concatenate((self.polar.T @ r_pef, self.polar.T @ v_pef))


# ------------------------------------------------------------------------------------------ geodesy
def geodetic_to_ecef(lat, lon, alt):
    """Reference-ellipsoid definition: x = (N+h) cos(lat) cos(lon), ..., z = (N (1-e^2) + h) sin(lat)."""
    e2 = ECC_EARTH * ECC_EARTH
    n = R_EARTH / math.sqrt(1.0 - e2 * math.sin(lat) ** 2)
    return [
        (n + alt) * math.cos(lat) * math.cos(lon),
        (n + alt) * math.cos(lat) * math.sin(lon),
        (n * (1.0 - e2) + alt) * math.sin(lat),
    ]


def ellipsoid_normal(lat, lon):
    return [math.cos(lat) * math.cos(lon), math.cos(lat) * math.sin(lon), math.sin(lat)]


def ecef_to_geodetic_iter(x, y, z):
    """Independent inverse: fixed-point iteration on the geodetic latitude (Vallado alg. 12 style), to 1e-15."""
    e2 = ECC_EARTH * ECC_EARTH
    rd = math.hypot(x, y)
    lon = math.atan2(y, x)
    lat = math.atan2(z, rd * (1.0 - e2))
    for _ in range(100):
        n = R_EARTH / math.sqrt(1.0 - e2 * math.sin(lat) ** 2)
        new = math.atan2(z + n * e2 * math.sin(lat), rd)
        if abs(new - lat) < 1e-16:
            lat = new
            break
        lat = new
    n = R_EARTH / math.sqrt(1.0 - e2 * math.sin(lat) ** 2)
    if abs(math.cos(lat)) > 1e-3:
        alt = rd / math.cos(lat) - n
    else:
        alt = z / math.sin(lat) - n * (1.0 - e2)
    return lat, lon, alt


# ------------------------------------------------------------------------------------------ topocentric horizon
def sez_basis(lat, lon):
    """Unit vectors South, East, Zenith of the site expressed in ECEF."""
    south = [math.sin(lat) * math.cos(lon), math.sin(lat) * math.sin(lon), -math.cos(lat)]
    east = [-math.sin(lon), math.cos(lon), 0.0]
    zen = [math.cos(lat) * math.cos(lon), math.cos(lat) * math.sin(lon), math.sin(lat)]
    return south, east, zen


def sez_to_ecef(v3, lat, lon):
    s, e, z = sez_basis(lat, lon)
    return [v3[0] * s[i] + v3[1] * e[i] + v3[2] * z[i] for i in range(3)]


def ecef_to_sez(v3, lat, lon):
    s, e, z = sez_basis(lat, lon)
    return [sum(v3[i] * b[i] for i in range(3)) for b in (s, e, z)]


def razel_to_sez(rng, el, az, rng_rate, el_rate, az_rate):
    """Vallado eq 4-4 / 4-5 (azimuth clockwise from north, S axis toward south)."""
    ce, se, ca, sa = math.cos(el), math.sin(el), math.cos(az), math.sin(az)
    return [
        -rng * ce * ca,
        rng * ce * sa,
        rng * se,
        -rng_rate * ce * ca + rng * se * ca * el_rate + rng * ce * sa * az_rate,
        rng_rate * ce * sa - rng * se * sa * el_rate + rng * ce * ca * az_rate,
        rng_rate * se + rng * ce * el_rate,
    ]


def polar_from_cartesian(x6):
    """(range, elevation-like angle, azimuth-like angle in [0,2pi), and their rates) of a 6-vector: own formulae.

    angle2 = atan2(y, x) measured from +x toward +y; callers flip the S axis for azimuth.
    """
    x, y, z, vx, vy, vz = (float(v) for v in x6)
    rho = math.sqrt(x * x + y * y + z * z)
    h2 = x * x + y * y
    rho_dot = (x * vx + y * vy + z * vz) / rho
    ang1 = math.atan2(z, math.sqrt(h2))
    ang2 = math.atan2(y, x) % TWOPI
    ang1_rate = (vz * h2 - z * (x * vx + y * vy)) / (rho * rho * math.sqrt(h2)) if h2 > 0 else float("nan")
    ang2_rate = (x * vy - y * vx) / h2 if h2 > 0 else float("nan")
    return rho, ang1, ang2, rho_dot, ang1_rate, ang2_rate


# ------------------------------------------------------------------------------------------ satellite frames
def unit(v):
    n = math.sqrt(sum(c * c for c in v))
    return [c / n for c in v]


def rsw_basis(x6):
    r, v = list(x6[:3]), list(x6[3:])
    r_hat = unit(r)
    w_hat = unit(cross(r, v))
    s_hat = cross(w_hat, r_hat)
    return r_hat, s_hat, w_hat


def ntw_basis(x6):
    r, v = list(x6[:3]), list(x6[3:])
    t_hat = unit(v)
    w_hat = unit(cross(r, v))
    n_hat = cross(t_hat, w_hat)
    return n_hat, t_hat, w_hat


def combine(basis, comps):
    return [sum(comps[k] * basis[k][i] for k in range(3)) for i in range(3)]


def project(basis, vec):
    return [sum(vec[i] * b[i] for i in range(3)) for b in basis]
