"""Reference model for C18 (multiple-model adaptive estimation).

Plain numpy, written from the textbook definitions (Bar-Shalom, Li, Kirubarajan 2001, ch. 11.6) and the wording of
the property, not from the filter code:

* ``kf_predict`` / ``kf_update``: linear Kalman filter of ONE model (x' = F x, y = H x), optionally the documented
  no-redraw variant of the unscented filter (measurement spread taken from the propagated sigma points, i.e. P- - Q);
* ``log_gauss``: log N(nu; 0, S) via slogdet/solve;
* ``bayes``: posterior model probabilities in LOG space (log-sum-exp), with the documented uniform reset when the
  total mass is zero within floating-point resolution (1e-15);
* ``mixture``: probability-weighted mean and moment-matched covariance;
* ``smm_step`` / ``gpb1_step``: expected weights, survivors and closure of one measurement update of the static
  multiple model / generalised pseudo-Bayesian (order 1) estimators as the property states them: prune below the
  threshold but always keep at least one model (the most probable one), close when one model remains or when exactly
  one model holds >= the convergence percentage and the mixture NIS passes the one-sided chi-square gate.
"""
from __future__ import annotations

import math

import numpy as np
from scipy.stats import chi2

ZERO_MASS = 1e-15  # numpy.finfo(float).resolution: "zero within floating point error" (documented reset)
# relative half-width of the band around a decision threshold inside which either outcome is accepted.  Weights carry
# a relative rounding error of about 0.5 * nis * cond(S) * eps <= 1e-9 for nis <= 1e6, the band is 1e-6.
BAND = 1e-6


# ----------------------------------------------------------------------------------------------- one model
def kf_predict(x, p, f, q):
    return f @ x, f @ p @ f.T + q


def kf_update(xm, pm, h, r, y, q=None, resample=True):
    """Measurement update of one linear model. ``resample=False`` = documented no-redraw variant (spread P- - Q)."""
    spread = pm if resample or q is None else pm - q
    s = h @ spread @ h.T + r
    c = spread @ h.T
    k = np.linalg.solve(s.T, c.T).T
    nu = y - h @ xm
    nis = float(nu @ np.linalg.solve(s, nu))
    xp = xm + k @ nu
    pp = pm - k @ s @ k.T
    return {"nu": nu, "S": s, "C": c, "K": k, "nis": nis, "x": xp, "P": pp, "yhat": h @ xm}


def log_gauss(nu, s):
    """log of the zero-mean Gaussian density with covariance s at nu."""
    m = len(nu)
    sign, logdet = np.linalg.slogdet(s)
    if sign <= 0:
        return float("nan")
    return float(-0.5 * (nu @ np.linalg.solve(s, nu)) - 0.5 * (m * math.log(2.0 * math.pi) + logdet))


# ----------------------------------------------------------------------------------------------- probabilities
def _logsumexp(v):
    v = np.asarray(v, dtype=float)
    top = np.max(v)
    if not np.isfinite(top):
        return float(top)
    return float(top + math.log(np.sum(np.exp(v - top))))


def bayes(prior, loglik):
    """Posterior ~ prior * exp(loglik), renormalised, computed in log space.

    Returns (posterior, info) where info = {"log_mass", "reset", "boundary"}: ``reset`` = total mass below 1e-15 ->
    documented uniform reset: posterior = prior with every likelihood replaced by one (for a uniform prior: uniform).
    """
    prior = np.asarray(prior, dtype=float)
    loglik = np.asarray(loglik, dtype=float)
    with np.errstate(divide="ignore"):
        terms = np.log(prior) + loglik
    total = _logsumexp(terms)
    log_zero = math.log(ZERO_MASS)
    boundary = np.isfinite(total) and abs(total - log_zero) <= BAND
    reset = not (total >= log_zero)
    if reset:
        return None, {"log_mass": total, "reset": True, "boundary": bool(boundary)}
    post = np.exp(terms - total)
    return post, {"log_mass": total, "reset": False, "boundary": bool(boundary)}


def mix_matrix(n, ratio):
    """Mode transition matrix of GPB1: every off-diagonal entry p, diagonal ratio * p, rows sum to one."""
    p = 1.0 / (n - 1 + ratio)
    m = np.full((n, n), p)
    for i in range(n):
        m[i, i] = ratio * p
    return m


def mixture(weights, xs, ps):
    """Probability-weighted mean and moment-matched covariance of a Gaussian mixture."""
    weights = np.asarray(weights, dtype=float)
    xs = np.asarray(xs, dtype=float)
    mean = np.zeros(xs.shape[1])
    for w, x in zip(weights, xs):
        mean = mean + w * x
    cov = np.zeros((xs.shape[1], xs.shape[1]))
    for w, x, p in zip(weights, xs, ps):
        d = x - mean
        cov = cov + w * (np.asarray(p, dtype=float) + np.outer(d, d))
    return mean, cov


def mixture_exact(weights, xs, ps):
    """The same two moments in EXACT rational arithmetic (``fractions.Fraction`` of the given binary floats), rounded
    to float once at the end: free of cancellation whatever the ratio |x|^2 / |P| is (orbital radii in km against
    centimetre-level covariances)."""
    from fractions import Fraction as Fr  # noqa: PLC0415

    n, d = len(xs), len(xs[0])
    w = [Fr(float(v)) for v in weights]
    x = [[Fr(float(v)) for v in row] for row in xs]
    mean = [sum(w[k] * x[k][i] for k in range(n)) for i in range(d)]
    dev = [[x[k][i] - mean[i] for i in range(d)] for k in range(n)]
    cov = [[sum(w[k] * (Fr(float(ps[k][i][j])) + dev[k][i] * dev[k][j]) for k in range(n)) for j in range(d)]
           for i in range(d)]
    return np.array([float(v) for v in mean]), np.array([[float(v) for v in row] for row in cov])


def mixture_tolerance(weights, xs, ps, mean):
    """Element-wise rounding allowance for a float64 evaluation of the CENTRED mixture formulae (any summation
    order), from the data alone.

    mean:  sum_k w_k x_k is n products and n additions of terms bounded by S_i = sum_k |w_k x_k,i|:
           |error_i| <= (n + 1) u S_i, allowance 2 (n + 1) eps S_i (eps = 2 u: a factor 4).
    cov:   every term w_k (P_k + d_k d_k') costs three roundings and the accumulation n more, all on magnitudes
           bounded by B_ij = sum_k |w_k| (|P_k,ij| + |d_k,i d_k,j|): allowance 4 (n + 2) eps B_ij (factor ~8).  A mean
           that is off by delta (<= (n + 1) u S) and weights that sum to 1 + O(n u) change the centred sum only in
           second order, delta_i delta_j + (1 - sum w) (m_i delta_j + delta_i m_j): allowance 4 ((n + 1) eps)^2 S_i S_j
           (1e-21 km^2 at GEO).  Nothing here grows like eps |x|^2 (1e-8 .. 4e-7 km^2), which is what a one-pass
           E[xx'] - E[x]E[x]' evaluation loses.
    Returns (tol_mean, tol_cov, B)."""
    eps = float(np.finfo(float).eps)
    w = np.abs(np.asarray(weights, dtype=float))
    xs = np.asarray(xs, dtype=float)
    n = len(w)
    s = np.zeros(xs.shape[1])
    b = np.zeros((xs.shape[1], xs.shape[1]))
    for wk, x, p in zip(w, xs, ps):
        s = s + wk * np.abs(x)
        d = np.abs(x - np.asarray(mean, dtype=float))
        b = b + wk * (np.abs(np.asarray(p, dtype=float)) + np.outer(d, d))
    tol_mean = 2.0 * (n + 1) * eps * s
    tol_cov = 4.0 * (n + 2) * eps * b + 4.0 * ((n + 1) * eps) ** 2 * np.outer(s, s)
    return tol_mean, tol_cov, b


def gate_bound(percentage, dof):
    """Upper bound of the one-sided chi-square interval with confidence ``percentage`` and ``dof`` degrees."""
    return float(chi2.isf(1.0 - percentage, dof))


def _near(value, ref):
    return abs(value - ref) <= BAND * abs(ref)


# ----------------------------------------------------------------------------------------------- estimators
def smm_step(prior_w, loglik, nis, ydim, threshold, percentage, stale_nis=None):
    """Expected outcome of one SMM update.

    ``loglik``/``nis`` None = update without observations (weights unchanged, the gate - if reached - uses the mixture
    NIS of the last observed update, ``stale_nis``).  Returns a dict: posterior ``w_post`` (before pruning),
    ``survivors`` (indices into the prior list, candidates list when several are admissible), ``w_final``,
    ``closed``, ``reason``, ``boundary`` (a decision lies within BAND of its threshold: either outcome admissible),
    ``prune_all`` (every model below the threshold), ``reset``.
    """
    prior_w = np.asarray(prior_w, dtype=float)
    n = len(prior_w)
    out = {"boundary": False, "reset": False, "prune_all": False, "log_mass": None, "pruned": False}
    if loglik is None:
        w = prior_w.copy()
    else:
        w, info = bayes(prior_w, loglik)
        out["log_mass"] = info["log_mass"]
        out["boundary"] |= info["boundary"]
        if info["reset"]:
            out["reset"] = True
            w = np.full(n, 1.0 / n)
    out["w_post"] = w
    below = w < threshold
    if any(_near(v, threshold) for v in w):
        out["boundary"] = True
    if below.all():
        out["prune_all"] = True
        top = float(np.max(w))
        # most probable model(s): ties (relative 1e-9) are all admissible survivors
        out["admissible"] = [i for i in range(n) if w[i] >= top * (1.0 - 1e-9)]
        surv = [out["admissible"][0]]
    else:
        surv = [i for i in range(n) if not below[i]]
        out["admissible"] = None
    out["pruned"] = len(surv) < n
    w2 = w[surv] / np.sum(w[surv])
    closed, reason = False, "open"
    gate = None
    if len(surv) == 1:
        closed, reason = True, "pruned_to_one"
    else:
        if any(_near(v, percentage) for v in w2):
            out["boundary"] = True
        sol = [k for k, v in enumerate(w2) if v >= percentage]
        if len(sol) == 1:
            if nis is not None:
                mixed = float(np.dot(w2, np.asarray(nis, dtype=float)[surv]))
            else:
                mixed = stale_nis
            if mixed is None or ydim in (None, 0) or not np.isfinite(mixed):
                out["boundary"] = True  # gate undefined (no observed update yet): not decided by the oracle
            else:
                bound = gate_bound(percentage, ydim)
                gate = {"nis": mixed, "bound": bound}
                if _near(mixed, bound):
                    out["boundary"] = True
                if mixed < bound:
                    surv = [surv[sol[0]]]
                    w2 = np.array([1.0])
                    closed, reason = True, "converged"
                    out["pruned"] = True
    out.update({"survivors": surv, "w_final": w2, "closed": closed, "reason": reason, "gate": gate})
    return out


def gpb1_step(prior_mu, loglik, nis, ydim, percentage, ratio):
    """Expected outcome of one GPB1 update: (w, mu_next, closed...). No observations: nothing changes, never closes."""
    prior_mu = np.asarray(prior_mu, dtype=float)
    n = len(prior_mu)
    out = {"boundary": False, "reset": False, "prune_all": False, "pruned": False, "survivors": list(range(n)),
           "admissible": None, "log_mass": None, "gate": None}
    if loglik is None:
        out.update({"w_post": None, "w_final": None, "mu_next": prior_mu.copy(), "closed": False, "reason": "open"})
        return out
    w, info = bayes(prior_mu, loglik)
    out["log_mass"] = info["log_mass"]
    out["boundary"] |= info["boundary"]
    if info["reset"]:
        out["reset"] = True
        w = prior_mu / np.sum(prior_mu)
    mu_next = mix_matrix(n, ratio) @ w
    mixed = float(np.dot(w, np.asarray(nis, dtype=float)))
    bound = gate_bound(percentage, ydim)
    if _near(mixed, bound):
        out["boundary"] = True
    closed = mixed < bound
    out.update({"w_post": w, "w_final": w, "mu_next": mu_next, "closed": bool(closed),
                "reason": "converged" if closed else "open", "gate": {"nis": mixed, "bound": bound}})
    return out
