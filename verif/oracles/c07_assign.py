"""Independent reference models for C07 (tasking decisions and rewards).

Boring brute force, no scipy: every complete one-to-one assignment of a T x S matrix is enumerated with
``itertools.permutations`` and totals are compared directly.  Boolean matrices are packed into integers
(bit ``t*S+s``) so that "the decision is one of the admissible decisions" is an integer comparison.
"""
from __future__ import annotations

from functools import lru_cache
from itertools import permutations

import numpy as np


def pack(mats: np.ndarray) -> np.ndarray:
    """(N,T,S) bool -> (N,) int64 codes, bit t*S+s."""
    n = mats.shape[0]
    flat = mats.reshape(n, -1).astype(np.int64)
    weights = np.int64(1) << np.arange(flat.shape[1], dtype=np.int64)
    return flat @ weights


def unpack(code: int, t: int, s: int) -> np.ndarray:
    return np.array([(int(code) >> k) & 1 for k in range(t * s)], dtype=bool).reshape(t, s)


@lru_cache(maxsize=None)
def assignments(t: int, s: int):
    """All complete one-to-one assignments of size min(t, s).

    Returns (rows, cols, codes): ``rows``/``cols`` are (K, m) index arrays of the assigned pairs, ``codes`` the
    packed boolean matrices.
    """
    m = min(t, s)
    rows, cols = [], []
    if t <= s:
        for perm in permutations(range(s), t):  # target i -> sensor perm[i]
            rows.append(list(range(t)))
            cols.append(list(perm))
    else:
        for perm in permutations(range(t), s):  # sensor j -> target perm[j]
            rows.append(list(perm))
            cols.append(list(range(s)))
    rows = np.array(rows, dtype=np.int64).reshape(-1, m)
    cols = np.array(cols, dtype=np.int64).reshape(-1, m)
    codes = (np.int64(1) << (rows * s + cols)).sum(axis=1)
    return rows, cols, codes


def assignment_oracle(reward: np.ndarray, visible: np.ndarray, tol: float = 0.0, chunk: int = 4096):
    """For a batch (N,T,S): which complete assignments are optimal and what decision each of them leaves after
    the visibility AND.

    Returns (opt (N,K) bool, dcodes (N,K) int64, near (N,K) bool): ``opt`` = total equals the maximum exactly,
    ``near`` = total within ``tol`` of the maximum (superset of opt), ``dcodes`` = assignment AND visibility.
    """
    n, t, s = reward.shape
    rows, cols, acodes = assignments(t, s)
    vcodes = pack(visible)
    opt = np.empty((n, len(acodes)), dtype=bool)
    near = np.empty((n, len(acodes)), dtype=bool)
    for i0 in range(0, n, chunk):
        blk = reward[i0 : i0 + chunk]
        totals = blk[:, rows, cols].sum(axis=2)  # (n,K)
        best = totals.max(axis=1, keepdims=True)
        opt[i0 : i0 + chunk] = totals == best
        near[i0 : i0 + chunk] = totals >= best - tol
    dcodes = acodes[None, :] & vcodes[:, None]
    return opt, dcodes, near


def greedy_oracle(reward: np.ndarray, visible: np.ndarray, decision: np.ndarray, tol: float = 0.0):
    """Per-sensor (column) reference for the greedy policy.

    A column decision is admissible iff it is ``onehot(t*) AND visible[:, s]`` for some ``t*`` whose reward
    attains the column maximum: a single visible max-reward target, or nothing if a max-reward target is
    invisible.  Returns (ok (N,), unique (N,), n_tasked (N,)) - ``unique`` = every column has exactly one admissible
    decision.
    """
    colmax = reward.max(axis=1, keepdims=True)
    is_max = reward >= colmax - tol  # (N,T,S)
    vis_max = is_max & visible
    invis_max = is_max & ~visible
    cnt = decision.sum(axis=1)  # (N,S)
    chosen_ok = (decision & ~vis_max).sum(axis=1) == 0  # every tasked pair is a visible column maximum
    empty_ok = invis_max.any(axis=1)  # an empty column needs an invisible maximum
    col_ok = ((cnt == 1) & chosen_ok) | ((cnt == 0) & empty_ok)
    n_adm = vis_max.sum(axis=1) + invis_max.any(axis=1)
    return col_ok.all(axis=1), (n_adm == 1).all(axis=1), cnt.sum(axis=1)


# --------------------------------------------------------------------------------------------- rewards
def normalise_ref(metrics: np.ndarray) -> np.ndarray:
    """Each metric slice divided by its own maximum when that maximum is positive, else unchanged."""
    out = np.array(metrics, dtype=float, copy=True)
    for p in range(out.shape[-1]):
        top = float(np.max(out[..., p]))
        if top > 0.0:
            out[..., p] = out[..., p] / top
    return out


def _sgn(x: np.ndarray) -> np.ndarray:
    return np.where(x > 0, 1.0, np.where(x < 0, -1.0, 0.0))


def reward_ref(kind: str, types: list, norm: np.ndarray, delta: float) -> np.ndarray:
    """Docstring formulae evaluated on the normalised metric tensor (T,S,P); ``types[k]`` = metric type of slice k.

    cost_constrained: r = delta * (sign(stab) + info) - (1 - delta) * sens
    combined:         r = delta * (sign(stab) + info) - (1 - delta) * sens + staleness(target metric)
    simple_sum:       r = sum of all metrics
    """
    if kind == "simple_sum":
        acc = np.zeros(norm.shape[:2])
        for k in range(norm.shape[2]):
            acc = acc + norm[:, :, k]
        return acc
    by_type = {ty: norm[:, :, k] for k, ty in enumerate(types)}
    core = delta * (_sgn(by_type["stability"]) + by_type["information"]) - (1.0 - delta) * by_type["sensor"]
    if kind == "cost_constrained":
        return core
    if kind == "combined":
        return core + by_type["target"]
    raise ValueError(kind)
