"""Independent special-perturbations reference trajectory for C03's "epoch split" family.

The acceleration is assembled from ``verif/oracles/force_ref.py`` (own geopotential / third-body / SRP / relativity
formulae and own reading of the ephemeris kernels, written for C13) and evaluated at an ABSOLUTE UTC instant
``epoch + t``: there is no "scenario start" / "elapsed seconds" pair anywhere in this module, so a library slip in how
an absolute epoch is split between the two cannot be shared.  Shared with the library (passed in / looked up): the
ECEF->ECI rotation through the public ``ecef2eci`` (C04's subject), the third-body GMs and the astronomical unit
(compared with literature values by C13).  The integrator is scipy's DOP853 at rtol 1e-12 (two orders tighter than
the library's 1e-10), started from the same state.
"""
from __future__ import annotations

from datetime import datetime, timedelta

import numpy as np
from scipy.integrate import solve_ivp

from verif.oracles import force_ref as fr

REF_RTOL = 1e-12
REF_ATOL = 1e-14


def _jd(dt: datetime) -> float:
    return (dt.toordinal() + 1721424.5) + (dt.hour * 3600 + dt.minute * 60 + dt.second + dt.microsecond * 1e-6) / 86400.0


def _rotation(dt: datetime):
    """ECEF -> ECI matrix at the absolute instant, column by column through the library's public transform."""
    from resonaate.physics.transforms.methods import ecef2eci  # noqa: PLC0415

    m = np.zeros((3, 3))
    for i in range(3):
        e = np.zeros(6)
        e[i] = 1.0
        m[:, i] = ecef2eci(e, dt)[:3]
    return m


def _lib_constants():
    from resonaate.physics import constants as const  # noqa: PLC0415
    from resonaate.physics.bodies import Jupiter, Moon, Saturn, Sun, Venus  # noqa: PLC0415

    mus = {"sun": float(Sun.mu), "moon": float(Moon.mu), "jupiter": float(Jupiter.mu), "saturn": float(Saturn.mu), "venus": float(Venus.mu)}
    return mus, float(const.AU2KM)


def acceleration(when: datetime, r, v, model, degree, order, bodies, srp, gr, sat_ratio):
    """Total ECI acceleration (km/s^2) of the configured force model at the absolute UTC instant ``when``."""
    mus, au = _lib_constants()
    r = np.asarray(r, dtype=float)
    v = np.asarray(v, dtype=float)
    jd = _jd(when)
    rot = _rotation(when)
    acc = np.asarray(fr.point_mass(r), dtype=float) + rot @ np.asarray(fr.geopotential_accel(rot.T @ r, model, degree, order), dtype=float)
    sun = None
    for b in bodies:
        pos = fr.body_position(jd, b)
        if b == "sun":
            sun = pos
        acc = acc + np.asarray(fr.third_body_accel(r, pos, mus[b]), dtype=float)
    if srp:
        if sun is None:
            sun = fr.body_position(jd, "sun")
        acc = acc + np.asarray(fr.srp_accel(r, sun, sat_ratio, au), dtype=float)
    if gr:
        acc = acc + np.asarray(fr.relativity_accel(r, v), dtype=float)
    return acc


def propagate(epoch: datetime, x0, dt_s, model, degree, order, bodies, srp, gr, sat_ratio):
    """State ``dt_s`` seconds after the absolute UTC instant ``epoch``; also returns the number of force evaluations."""
    count = [0]

    def rhs(t, x):
        count[0] += 1
        a = acceleration(epoch + timedelta(seconds=float(t)), x[:3], x[3:], model, degree, order, bodies, srp, gr, sat_ratio)
        return np.concatenate((x[3:], a))

    sol = solve_ivp(rhs, (0.0, float(dt_s)), np.asarray(x0, dtype=float), method="DOP853", rtol=REF_RTOL, atol=REF_ATOL)
    if not sol.success:
        raise RuntimeError(sol.message)
    return sol.y[:, -1], count[0]
