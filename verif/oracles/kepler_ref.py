"""Independent closed-form two-body reference used by C03 (written from the textbook conic relations, not from
resonaate): eccentricity-vector perifocal frame + Kepler's equation in E (ellipse), F (hyperbola) or Barker's equation
(parabola).  Plain ``math`` floats; no resonaate import.

Accuracy (verified at development time against a DOP853 rtol=1e-13 integration and by forward/backward closure):
angles carry ~1e-15*|M| rad of rounding (|M| <= ~100 rad for a LEO day) => <= ~1e-9 km at 7000 km, <= 1e-8 km at 60000 km.
"""
from __future__ import annotations

import math

import numpy as np

MU_EARTH = 398600.4415  # km^3/s^2 (EGM-96 value; compared with Earth.mu by the check itself)
TWO_PI = 2.0 * math.pi


def cross(a, b):
    return (a[1] * b[2] - a[2] * b[1], a[2] * b[0] - a[0] * b[2], a[0] * b[1] - a[1] * b[0])


def dot(a, b):
    return a[0] * b[0] + a[1] * b[1] + a[2] * b[2]


def vnorm(a):
    return math.sqrt(dot(a, a))


def energy(state, mu=MU_EARTH):
    r = [float(x) for x in state[:3]]
    v = [float(x) for x in state[3:6]]
    return 0.5 * dot(v, v) - mu / vnorm(r)


def ang_mom(state):
    r = [float(x) for x in state[:3]]
    v = [float(x) for x in state[3:6]]
    return cross(r, v)


def ecc_vector(state, mu=MU_EARTH):
    r = [float(x) for x in state[:3]]
    v = [float(x) for x in state[3:6]]
    h = cross(r, v)
    vxh = cross(v, h)
    rn = vnorm(r)
    return tuple(vxh[i] / mu - r[i] / rn for i in range(3))


def conic(state, mu=MU_EARTH):
    """Conic description of a state: dict(kind, a, e, p, n, P, Q, W, nu, h, energy, alpha)."""
    r = [float(x) for x in state[:3]]
    v = [float(x) for x in state[3:6]]
    rn = vnorm(r)
    h = cross(r, v)
    hn = vnorm(h)
    ev = ecc_vector(state, mu)
    e = vnorm(ev)
    en = 0.5 * dot(v, v) - mu / rn
    alpha = -2.0 * en / mu  # = 1/a
    p = hn * hn / mu
    W = tuple(x / hn for x in h)
    # in-plane part of the eccentricity vector (its rounding-level out-of-plane part would tilt P by ~eps/e)
    evw = dot(ev, W)
    evp = tuple(ev[i] - evw * W[i] for i in range(3))
    ep = vnorm(evp)
    if ep < 1e-12:
        P = tuple(x / rn for x in r)  # circular: measure the anomaly from the current position
    else:
        P = tuple(x / ep for x in evp)
    Q = cross(W, P)
    nu = math.atan2(dot(r, Q), dot(r, P))
    if abs(alpha) * rn < 1e-11:
        kind = "parabola"
        a = math.inf
        n = 0.0
    elif alpha > 0:
        kind = "ellipse"
        a = 1.0 / alpha
        n = math.sqrt(mu / a**3)
    else:
        kind = "hyperbola"
        a = 1.0 / alpha
        n = math.sqrt(mu / (-a) ** 3)
    return {"kind": kind, "a": a, "e": e, "p": p, "n": n, "P": P, "Q": Q, "W": W, "nu": nu, "h": hn, "energy": en,
            "alpha": alpha, "r": rn}


def solve_kepler_ellipse(M, e):
    """E with E - e sin E = M, M reduced to [-pi, pi]. Newton from +-pi: monotone (f convex on [0, pi], f(pi) >= 0)."""
    M = math.remainder(M, TWO_PI)
    s = 1.0 if M >= 0 else -1.0
    m = abs(M)
    E = math.pi
    for _ in range(200):
        f = E - e * math.sin(E) - m
        d = f / (1.0 - e * math.cos(E))
        E -= d
        if abs(d) < 1e-15:
            break
    return s * E


def solve_kepler_hyperbola(M, e):
    """F with e sinh F - F = M (odd in M; Newton from asinh(M/e), left of the root of a convex function)."""
    s = 1.0 if M >= 0 else -1.0
    m = abs(M)
    F = math.asinh(m / e) if m > 0 else 0.0
    for _ in range(200):
        f = e * math.sinh(F) - F - m
        d = f / (e * math.cosh(F) - 1.0)
        F -= d
        if abs(d) < 1e-15 * max(1.0, abs(F)):
            break
    return s * F


def _assemble(c, x, y, xd, yd):
    P, Q = c["P"], c["Q"]
    return np.array([x * P[0] + y * Q[0], x * P[1] + y * Q[1], x * P[2] + y * Q[2],
                     xd * P[0] + yd * Q[0], xd * P[1] + yd * Q[1], xd * P[2] + yd * Q[2]])


def propagate(state, dt, mu=MU_EARTH):
    """State after ``dt`` seconds of two-body motion about a point mass ``mu`` (any conic)."""
    c = conic(state, mu)
    e, nu = c["e"], c["nu"]
    if c["kind"] == "ellipse":
        a = c["a"]
        E0 = 2.0 * math.atan2(math.sqrt(max(1.0 - e, 0.0)) * math.sin(nu / 2.0), math.sqrt(1.0 + e) * math.cos(nu / 2.0))
        M0 = E0 - e * math.sin(E0)
        E = solve_kepler_ellipse(M0 + c["n"] * dt, e)
        b = a * math.sqrt(max(1.0 - e * e, 0.0))
        r = a * (1.0 - e * math.cos(E))
        k = math.sqrt(mu * a) / r
        return _assemble(c, a * (math.cos(E) - e), b * math.sin(E), -k * math.sin(E), k * math.sqrt(max(1.0 - e * e, 0.0)) * math.cos(E))
    if c["kind"] == "hyperbola":
        aa = -c["a"]
        F0 = 2.0 * math.atanh(math.sqrt((e - 1.0) / (e + 1.0)) * math.tan(nu / 2.0))
        M0 = e * math.sinh(F0) - F0
        F = solve_kepler_hyperbola(M0 + c["n"] * dt, e)
        q = math.sqrt(e * e - 1.0)
        r = aa * (e * math.cosh(F) - 1.0)
        k = math.sqrt(mu * aa) / r
        return _assemble(c, aa * (e - math.cosh(F)), aa * q * math.sinh(F), -k * math.sinh(F), k * q * math.cosh(F))
    # parabola: Barker's equation  D + D^3/3 = 2 sqrt(mu/p^3) (t - T),  D = tan(nu/2)
    p = c["p"]
    D0 = math.tan(nu / 2.0)
    B = 2.0 * math.sqrt(mu / p**3) * dt + D0 + D0**3 / 3.0
    w = 1.5 * B + math.sqrt(2.25 * B * B + 1.0)
    cw = math.copysign(abs(w) ** (1.0 / 3.0), w)
    D = cw - 1.0 / cw
    k = math.sqrt(mu / p)
    sn, cn = 2.0 * D / (1.0 + D * D), (1.0 - D * D) / (1.0 + D * D)
    return _assemble(c, 0.5 * p * (1.0 - D * D), p * D, -k * sn, k * (1.0 + cn))


def state_from_elements(a, e, inc, raan, argp, nu, mu=MU_EARTH):
    """ECI state from classical elements (angles in radians); a is the semi-latus rectum p when e == 1."""
    p = a if e == 1.0 else a * (1.0 - e * e)
    r = p / (1.0 + e * math.cos(nu))
    k = math.sqrt(mu / p)
    xp, yp = r * math.cos(nu), r * math.sin(nu)
    xd, yd = -k * math.sin(nu), k * (e + math.cos(nu))
    cO, sO, co, so, ci, si = math.cos(raan), math.sin(raan), math.cos(argp), math.sin(argp), math.cos(inc), math.sin(inc)
    P = (cO * co - sO * so * ci, sO * co + cO * so * ci, so * si)
    Q = (-cO * so - sO * co * ci, -sO * so + cO * co * ci, co * si)
    return np.array([xp * P[0] + yp * Q[0], xp * P[1] + yp * Q[1], xp * P[2] + yp * Q[2],
                     xd * P[0] + yd * Q[0], xd * P[1] + yd * Q[1], xd * P[2] + yd * Q[2]])


def stumpff(psi):
    """(c2, c3) by closed form away from 0 and by the power series |psi| < 0.5 (no cancellation)."""
    if abs(psi) < 0.5:
        c2 = c3 = 0.0
        t2, t3 = 0.5, 1.0 / 6.0
        k = 0
        while abs(t2) > 1e-20 or abs(t3) > 1e-20:
            c2 += t2
            c3 += t3
            k += 1
            t2 *= -psi / ((2 * k + 1) * (2 * k + 2))
            t3 *= -psi / ((2 * k + 2) * (2 * k + 3))
        return c2, c3
    if psi > 0:
        s = math.sqrt(psi)
        return (1.0 - math.cos(s)) / psi, (s - math.sin(s)) / (s * psi)
    s = math.sqrt(-psi)
    return (1.0 - math.cosh(s)) / psi, (math.sinh(s) - s) / (s * -psi)
