"""Independent reference model for C16 (angle representation / observation order invariance).

Nothing here imports resonaate.  Three building blocks, written with deliberately different arithmetic from the
code under test:

* exact modular arithmetic on the rational value of the input doubles (``fractions.Fraction``) for the wrap and
  residual helpers: the code under test reduces modulo the *double* ``2*pi``, so the reference reduces the exact
  rational value of the input modulo the exact rational value of that double and rounds once at the end;
* circular statistics through unit vectors (``cos``/``sin`` summed with ``math.fsum``, ``atan2``), which have no seam;
* a textbook scaled unscented transform measurement update (Wan & van der Merwe 2001 weights; additive noise) in
  which every angular quantity is handled as a unit vector, so that the reference is invariant to angle
  representation *by construction*.
"""
from __future__ import annotations

import math
from fractions import Fraction

import numpy as np

PI = math.pi
TWOPI = 2.0 * math.pi
_T = Fraction(TWOPI)  # exact rational value of the double 2*pi
_H = Fraction(PI)  # exact rational value of the double pi (== _T / 2)

LIN, A2, AN = "lin", "a2", "an"  # component kinds: linear, angle in [0, 2pi), angle in [-pi, pi)
RANGES = {A2: (0.0, TWOPI), AN: (-PI, PI)}


# ------------------------------------------------------------------------------------------------ exact helpers
def exact_wrap_0_2pi(a: float) -> Fraction:
    """Exact value of ``a mod 2pi_double`` in [0, 2pi_double)."""
    return Fraction(a) % _T


def exact_wrap_pm_pi(a: float) -> Fraction:
    """Exact representative of ``a`` modulo ``2pi_double`` in (-pi, pi]."""
    r = Fraction(a) % _T
    if r > _H:
        r -= _T
    return r


def exact_residual(a: float, b: float) -> Fraction:
    """Exact representative of ``a - b`` modulo ``2pi_double`` in (-pi, pi]."""
    r = (Fraction(a) - Fraction(b)) % _T
    if r > _H:
        r -= _T
    return r


def circ_dist(a: float, b: float) -> float:
    """Distance on the circle (modulo the double 2pi) between two doubles, in [0, pi]."""
    r = (Fraction(a) - Fraction(b)) % _T
    if r > _H:
        r = _T - r
    return float(r)


def ulp(x: float) -> float:
    return math.ulp(abs(float(x)))


# ------------------------------------------------------------------------------------------------ circular mean
def circular_mean(angles, weights=None, low=0.0, high=TWOPI):
    """Weighted circular mean mapped into [low, high); returns (mean, resultant_length_for_normalised_weights).

    ``angles`` live on a circle of circumference ``high - low``.
    """
    scale = TWOPI / (high - low)
    ang = [(float(a) - low) * scale for a in angles]
    if weights is None:
        w = [1.0] * len(ang)
    else:
        w = [float(x) for x in weights]
    s = math.fsum(wi * math.sin(ai) for wi, ai in zip(w, ang))
    c = math.fsum(wi * math.cos(ai) for wi, ai in zip(w, ang))
    wsum = math.fsum(abs(x) for x in w)
    m = math.atan2(s, c)
    if m < 0.0:
        m += TWOPI
    return m / scale + low, math.hypot(s, c) / wsum


def signed_circ(a: float, b: float) -> float:
    """Signed representative of ``a - b`` on the circle, in (-pi, pi] (exact reduction, rounded once)."""
    return float(exact_residual(a, b))


def cluster_envelope(y0: float, plus, minus, w_side: float, angular: bool):
    """Analytic envelope of an unscented weighted (circular) mean around the centre sigma point's value.

    Weights: centre w0 = 1 - 2 n w_side, every other point w_side > 0.  With d_i+- the (signed, wrapped) offsets of the
    paired points from the centre value,
        S = sum_i w_side (sin d_i+ + sin d_i-),  |S| <= B := w_side * sum_i |d_i+ + d_i-|       (|sin a + sin b| <= |a + b|)
        C = 1 - sum w_side (1 - cos d) >= 1 - Q, Q := w_side * sum d^2 / 2                      (1 - cos d <= d^2 / 2)
    hence |mean - y0| = atan(|S| / C) <= atan(B / (1 - Q)) whenever Q < 1.  For a linear component the mean is
    y0 + w_side * sum (d_i+ + d_i-) exactly, so |mean - y0| <= B.  Returns (radius, bound, Q): radius = max |d| is the
    half-width of the cluster, bound is None when Q >= 1/2 (cluster too wide for the envelope to mean anything).
    """
    if angular:
        dp = [signed_circ(float(v), y0) for v in plus]
        dm = [signed_circ(float(v), y0) for v in minus]
    else:
        dp = [float(v) - y0 for v in plus]
        dm = [float(v) - y0 for v in minus]
    return envelope_from_offsets(dp, dm, w_side, angular)


def envelope_from_offsets(dp, dm, w_side: float, angular: bool):
    """``cluster_envelope`` for given signed offsets d_i+ / d_i- of the paired points from the centre value."""
    dp, dm = list(dp), list(dm)
    radius = max(abs(d) for d in dp + dm)
    b = w_side * math.fsum(abs(a + c) for a, c in zip(dp, dm))
    if not angular:
        return radius, b, 0.0
    q = w_side * math.fsum(d * d for d in dp + dm) / 2.0
    if q >= 0.5:
        return radius, None, q
    return radius, math.atan(b / (1.0 - q)), q


# ------------------------------------------------------------------------------------------------ reference UKF
def ut_weights(n: int, alpha: float, beta: float, kappa):
    if kappa is None:
        kappa = 3.0 - n
    lam = alpha * alpha * (n + kappa) - n
    wm = np.full(2 * n + 1, 1.0 / (2.0 * (n + lam)))
    wc = wm.copy()
    wm[0] = lam / (n + lam)
    wc[0] = lam / (n + lam) + (1.0 - alpha * alpha + beta)
    return wm, wc, math.sqrt(n + lam)


def _unit_angle(z: np.ndarray) -> np.ndarray:
    return np.arctan2(z.imag, z.real)


def ref_ukf_step(x0, p0, fmat, qmat, alpha, beta, kappa, hfun, kinds, rmat, z):
    """One predict (linear dynamics ``fmat``) + measurement update of a scaled UKF.

    ``hfun(X)`` maps an (n,) state to the stacked (m,) measurement; ``kinds`` lists LIN/A2/AN per component.
    Angular components are carried as unit complex numbers: mean = arg(sum w e^{iy}), residual = arg(e^{i(y-m)}).
    """
    x0 = np.asarray(x0, dtype=float)
    n = x0.size
    wm, wc, gamma = ut_weights(n, alpha, beta, kappa)
    chol = np.linalg.cholesky(np.asarray(p0, dtype=float))
    pts = [x0]
    pts += [x0 + gamma * chol[:, i] for i in range(n)]
    pts += [x0 - gamma * chol[:, i] for i in range(n)]
    sig = np.array([fmat @ p for p in pts])  # (S, n)
    pred_x = sum(w * s for w, s in zip(wm, sig))
    dx = sig - pred_x
    pred_p = sum(w * np.outer(d, d) for w, d in zip(wc, dx)) + qmat

    ys = np.array([np.asarray(hfun(s), dtype=float) for s in sig])  # (S, m)
    m = ys.shape[1]
    ang = np.array([k != LIN for k in kinds], dtype=bool)
    mean = np.zeros(m)
    dy = np.zeros_like(ys)
    for j in range(m):
        col = ys[:, j]
        if ang[j]:
            low, high = RANGES[kinds[j]]
            mj = float(_unit_angle(np.sum(wm * np.exp(1j * col))))
            dy[:, j] = _unit_angle(np.exp(1j * (col - mj)))
            mean[j] = (mj - low) % TWOPI + low
        else:
            mean[j] = float(np.sum(wm * col))
            dy[:, j] = col - mean[j]
    s_mat = sum(w * np.outer(d, d) for w, d in zip(wc, dy)) + rmat
    c_mat = sum(w * np.outer(a, b) for w, a, b in zip(wc, dx, dy))
    gain = np.linalg.solve(s_mat.T, c_mat.T).T
    z = np.asarray(z, dtype=float)
    nu = np.where(ang, _unit_angle(np.exp(1j * (z - mean))), z - mean)
    est_x = pred_x + gain @ nu
    est_p = pred_p - gain @ s_mat @ gain.T
    return {
        "pred_x": pred_x,
        "pred_p": pred_p,
        "mean_y": mean,
        "innovation": nu,
        "innov_cvr": s_mat,
        "cross_cvr": c_mat,
        "est_x": est_x,
        "est_p": est_p,
        "is_angular": ang,
        "sigma": sig,
        "dx0": dx[0],
        "dy0": dy[0],
        "ys": ys,
        "wm": wm,
    }
