"""Independent sensor-geometry oracle for C02 (observation pipeline).

From ECI states and the UTC epoch alone it recomputes everything the sensor pipeline decides on and returns, per
constraint, ``pass`` / ``fail`` / ``either`` (input within the derived rounding or modelling band of the threshold).

Independence: own geodetic latitude (Bowring/fixed-point iteration), own South-East-Zenith basis, atan2-based angles,
rational-arithmetic segment/sphere test (``visgeom.los_exact``), radar range equation in received-power form, own
magnitude / phase-function / exclusion-cone formulae.  Shared with the library: the inertial -> Earth-fixed rotation
(``eci2ecef``, subject of C04) and the solar ephemeris (``Sun.getPosition``, a JPL kernel lookup; not a C02 anchor).
No function of sensors/*, physics/sensor_utils.py, physics/measurements.py or data/observation.py is used.
"""
from __future__ import annotations

import math
from datetime import datetime

import numpy as np

from . import visgeom as vg

# constants (the values the library documents; a change of a library constant is therefore *detected* by C02)
A_EARTH = 6378.1363  # km
ECC_EARTH = 0.081819221456
E2 = ECC_EARTH * ECC_EARTH
ATMOSPHERE = 100.0  # km
C_LIGHT = 2.99792458e8  # m/s
SUN_APPARENT_MAG = -26.74
DEG = math.pi / 180.0
TWOPI = 2.0 * math.pi

SUN_EXCLUSION = math.pi / 12.0  # 15 deg: space sensor boresight - Sun
GALACTIC_EXCLUSION = math.pi / 30.0  # 6 deg
TWILIGHT = math.pi / 12.0  # ground site: Sun at least 15 deg below the horizontal plane

ANG_BAND = 1e-9  # rad. angles come from arccos/arcsin/atan2 of O(1) arguments: <= 1e-13 rad away from 0/pi, where the
#                  library's arccos loses up to sqrt(eps) = 1.5e-8 (only within 1e-8 of 0/pi).  Lattices keep >= 1e-6.
SLEW_BAND = 1e-7  # rad. slew angle ~ 0 (re-pointing at the boresight) is arccos(1-eps) <= 2.2e-8 in the library
FRAME_TILT = 1e-10  # rad: assumed accuracy of the library's geodetic vertical (closed-form ecef2lla: 5e-12 measured at GEO)
ZENITH_H = 1e-7  # relative horizontal part below which the library may take the azimuth from the velocity
#                  (it does so iff z/|rho| rounds to exactly 1.0, i.e. h/|rho| < ~1.05e-8)

REASON = {
    "slew": "Slew Rate/Distance to Target",
    "fov": "Field of View",
    "min_range": "Minimum Range",
    "max_range": "Maximum Range",
    "los": "Line of Sight",
    "el_mask": "Elevation Mask",
    "az_mask": "Azimuth Mask",
    "radar": "Radar Sensitivity - Max Range",
    "solar_flux": "Solar Flux",
    "vizmag": "Visual Magnitude",
    "galactic": "Galactic Exclusion Zone",
    "space_illum": "Space Sensor Illumination",
    "limb": "Limb of the Earth",
    "ground_illum": "Ground Sensor Illumination",
}
CONSTRAINT_OF_REASON = {v: k for k, v in REASON.items()}


# ------------------------------------------------------------------------------------------------ time
def julian_date(utc: datetime) -> float:
    """JD of a UTC datetime by integer day arithmetic (JD of 0001-01-01 00:00 = 1721425.5)."""
    sec = utc.hour * 3600 + utc.minute * 60 + utc.second + utc.microsecond * 1e-6
    return (utc.toordinal() + 1721424.5) + sec / 86400.0


# ------------------------------------------------------------------------------------------------ geodesy / frame
def geodetic(ecef):
    """Geodetic latitude, longitude, height of an Earth-fixed position (fixed-point iteration on the latitude)."""
    x, y, z = float(ecef[0]), float(ecef[1]), float(ecef[2])
    p = math.hypot(x, y)
    lon = math.atan2(y, x)
    lat = math.atan2(z, p * (1.0 - E2))
    for _ in range(60):
        s = math.sin(lat)
        n = A_EARTH / math.sqrt(1.0 - E2 * s * s)
        new = math.atan2(z + E2 * n * s, p)
        if abs(new - lat) < 1e-16:
            lat = new
            break
        lat = new
    s = math.sin(lat)
    n = A_EARTH / math.sqrt(1.0 - E2 * s * s)
    if abs(lat) < math.pi / 4:
        h = p / math.cos(lat) - n
    else:
        h = z / s - n * (1.0 - E2)
    return lat, lon, h


class Frame:
    """Horizon frame of the sensor at an epoch: S, E, Z unit axes expressed in the Earth-fixed frame.

    The inertial -> Earth-fixed rotation matrix of the epoch is read off ``eci2ecef`` (three unit vectors); Earth-fixed
    velocities are only needed for the azimuth of a target exactly at the zenith and are then taken from ``eci2ecef``.
    """

    def __init__(self, sensor_eci, utc: datetime, eci2ecef):
        self.utc = utc
        self.eci2ecef = eci2ecef
        self.sensor_eci = np.asarray(sensor_eci, dtype=float)
        cols = []
        for k in range(3):
            e = np.zeros(6)
            e[k] = 1.0
            cols.append(np.asarray(eci2ecef(e, utc), dtype=float)[:3])
        self.M = np.array(cols).T  # r_ecef = M @ r_eci
        self.sensor_ecef = np.asarray(eci2ecef(self.sensor_eci, utc), dtype=float)
        self.lat, self.lon, self.alt = geodetic(self.sensor_ecef[:3])
        sl, cl = math.sin(self.lat), math.cos(self.lat)
        so, co = math.sin(self.lon), math.cos(self.lon)
        self.S = [sl * co, sl * so, -cl]
        self.E = [-so, co, 0.0]
        self.Z = [cl * co, cl * so, sl]
        self.B = np.array([self.S, self.E, self.Z])  # rows: sez = B @ (ecef offset)
        # angle between the geodetic vertical and the geocentric radius (0 at equator / poles, <= 0.2 deg)
        self.deflection = vg.angle_between(self.Z, list(self.sensor_ecef[:3]))

    def sez(self, target_eci):
        """Slant-range 6-vector of an ECI state in this horizon frame (velocity part filled only next to the zenith)."""
        tgt = np.asarray(target_eci, dtype=float)
        d = self.M @ tgt[:3] - self.sensor_ecef[:3]
        p = self.B @ d
        out = [float(p[0]), float(p[1]), float(p[2]), 0.0, 0.0, 0.0]
        if out[2] > 0 and math.hypot(out[0], out[1]) < 10 * ZENITH_H * vg.norm(out):
            t = np.asarray(self.eci2ecef(tgt, self.utc), dtype=float)
            v = self.B @ (t[3:] - self.sensor_ecef[3:])
            out[3:] = [float(v[0]), float(v[1]), float(v[2])]
        return out

    def sez_to_eci_position(self, sez_pos):
        """Harness-side helper (target placement): ECI position of a point given by its SEZ offset from the sensor."""
        off = self.B.T @ np.asarray(sez_pos[:3], dtype=float)
        return self.M.T @ (self.sensor_ecef[:3] + off)

    def ecef_direction(self, eci_vec):
        return [float(x) for x in self.M @ np.asarray(eci_vec, dtype=float)[:3]]


def az_band(v, rmax):
    """Rounding band of an azimuth: ANG_BAND + (position rounding 32 eps R + frame tilt * rho) / horizontal part."""
    h = math.hypot(v[0], v[1])
    return ANG_BAND + (32.0 * vg.EPS * rmax + FRAME_TILT * vg.norm(v)) / max(h, 1e-300)


def azimuths(v):
    """Candidate azimuths of a SEZ 6-vector: one value, or two (position- and velocity-based) next to the zenith."""
    h = math.hypot(v[0], v[1])
    rho = vg.norm(v)
    pos_az = vg.wrap_0_2pi(math.atan2(v[1], -v[0])) if h > 0.0 else None
    out = [pos_az] if pos_az is not None else []
    # exactly north: the east component is a rounding residue of either sign -> both ends of the seam are admitted
    if pos_az is not None and pos_az < ANG_BAND:
        out.append(TWOPI - 1e-15)
    elif pos_az is not None and pos_az > TWOPI - ANG_BAND:
        out.append(0.0)
    if v[2] > 0 and h < ZENITH_H * rho:
        out.append(vg.wrap_0_2pi(math.atan2(v[4], -v[3])))
    return out


def elevation(v):
    return math.atan2(v[2], math.hypot(v[0], v[1]))


def range_rate_eci(sensor_eci, target_eci):
    """d|rho|/dt from the inertial states (a scalar: frame independent)."""
    d = [float(target_eci[i]) - float(sensor_eci[i]) for i in range(3)]
    dv = [float(target_eci[i + 3]) - float(sensor_eci[i + 3]) for i in range(3)]
    return vg.dot(d, dv) / vg.norm(d)


# ------------------------------------------------------------------------------------------------ photometry / radar
def lambert_phase(phi):
    """Diffuse (Lambertian) sphere phase function."""
    return (2.0 / (3.0 * math.pi * math.pi)) * (math.sin(phi) + (math.pi - phi) * math.cos(phi))


def visual_magnitude(area_m2, reflectivity, phase_angle, range_km):
    ratio = area_m2 * reflectivity * lambert_phase(phase_angle) / (range_km * 1000.0) ** 2
    if ratio <= 0.0:
        return math.inf
    return SUN_APPARENT_MAG - 2.5 * math.log10(ratio)


def radar_received_power(tx_power, tx_frequency, diameter_m, efficiency, area_m2, range_km):
    """Monostatic radar range equation, flat-plate cross section: Pr = Pt G^2 lam^2 sigma / ((4 pi)^3 R^4)."""
    lam = C_LIGHT / tx_frequency
    aperture = math.pi * (diameter_m / 2.0) ** 2
    gain = efficiency * 4.0 * math.pi * aperture / lam**2
    sigma = 4.0 * math.pi * area_m2**2 / lam**2
    r_m = range_km * 1000.0
    return tx_power * gain**2 * lam**2 * sigma / ((4.0 * math.pi) ** 3 * r_m**4)


# ------------------------------------------------------------------------------------------------ classification
def _cls(margin, band):
    """margin >= 0 means the constraint is satisfied; |margin| < band: either-way."""
    if abs(margin) < band or math.isnan(margin):
        return "either"
    return "pass" if margin > 0 else "fail"


def _merge(*statuses):
    """Several admissible definitions of one constraint: agree -> that status, else either-way."""
    s = set(statuses)
    if len(s) == 1:
        return statuses[0]
    return "either"


def initial_boresight(az_mask_deg, el_mask_deg):
    """Centre of the field of regard (SEZ unit vector): middle of the azimuth interval travelled from az_mask[0]
    through east to az_mask[1] (it may wrap through north), middle of the elevation interval."""
    lo, hi = az_mask_deg[0] * DEG, az_mask_deg[1] * DEG
    width = vg.wrap_0_2pi(hi - lo)
    mid_az = vg.wrap_0_2pi(lo + width / 2.0)
    mid_el = 0.5 * (el_mask_deg[0] + el_mask_deg[1]) * DEG
    return vg.sez_from_azel(mid_az, mid_el, 1.0)[:3], mid_az, mid_el


def evaluate(spec, frame: Frame, target_eci, estimate_eci, prior_boresight, dt, area_m2, reflectivity, sun_eci):
    """Return ({constraint: status}, {constraint: margin}, geometry dict) for one sensor/target/pointing triple.

    ``spec`` keys: kind ('optical'|'radar'|'adv_radar'), space (bool), az_mask [deg, deg], el_mask [deg, deg],
    fov ('conic', cone_deg) | ('rect', az_deg, el_deg), min_range, max_range (km or None), slew_rate (deg/s),
    and tx_power, tx_frequency, min_detectable_power, diameter, efficiency (radars), detectable_vismag (optical).
    """
    sensor_eci = frame.sensor_eci
    tgt = np.asarray(target_eci, dtype=float)
    est = np.asarray(estimate_eci, dtype=float)
    t_sez = frame.sez(tgt)
    p_sez = frame.sez(est)
    rho = vg.norm(t_sez)
    d_eci = [float(tgt[i] - sensor_eci[i]) for i in range(3)]
    p_eci = [float(est[i] - sensor_eci[i]) for i in range(3)]
    st, mg = {}, {}

    # ---- slew: angle between the commanded pointing and the prior boresight vs slew_rate * elapsed time
    slew_angle = vg.angle_between(p_sez[:3], list(prior_boresight))
    reach = spec["slew_rate"] * DEG * dt
    mg["slew"] = reach - slew_angle
    st["slew"] = _cls(mg["slew"], SLEW_BAND)

    # ---- field of view about the commanded pointing
    fov = spec["fov"]
    if fov[0] == "conic":
        off = vg.angle_between(p_eci, d_eci)  # frame independent
        mg["fov"] = fov[1] * DEG / 2.0 - off
        st["fov"] = _cls(mg["fov"], ANG_BAND)
    else:
        half_az, half_el = fov[1] * DEG / 2.0, fov[2] * DEG / 2.0
        d_el = abs(elevation(p_sez) - elevation(t_sez))
        rmax_ = max(vg.norm(sensor_eci), vg.norm(tgt), vg.norm(est))
        band_fov = az_band(p_sez, rmax_) + az_band(t_sez, rmax_)
        cands = []
        worst = None
        for ap in azimuths(p_sez):
            for at in azimuths(t_sez):
                m = min(half_az - vg.circ_dist(ap, at), half_el - d_el)
                cands.append(_cls(m, band_fov))
                worst = m if worst is None else min(worst, m)
        mg["fov"] = worst
        st["fov"] = _merge(*cands)

    # ---- range limits
    rng = vg.norm(d_eci)
    band_r = 1e-9 * max(1.0, rng)
    if spec.get("min_range") is not None:
        mg["min_range"] = rng - spec["min_range"]
        st["min_range"] = _cls(mg["min_range"], band_r)
    if spec.get("max_range") is not None and math.isfinite(spec["max_range"]):
        mg["max_range"] = spec["max_range"] - rng
        st["max_range"] = _cls(mg["max_range"], band_r)

    # ---- line of sight (spherical Earth of the equatorial radius, as documented)
    r_s, r_t = vg.norm(sensor_eci), vg.norm(tgt)
    st["los"], mg["los"] = line_of_sight(list(tgt[:3]), list(sensor_eci[:3]))

    # ---- elevation / azimuth masks (horizon frame of the sensor)
    el = elevation(t_sez)
    lo_el, hi_el = sorted(e * DEG for e in spec["el_mask"])  # documented as order independent
    mg["el_mask"] = min(el - lo_el, hi_el - el)
    st["el_mask"] = _cls(mg["el_mask"], ANG_BAND)
    az_lo, az_hi = spec["az_mask"][0] * DEG, spec["az_mask"][1] * DEG
    cands, worst = [], None
    for az in azimuths(t_sez):
        ok, margin = vg.mask_admits(az, az_lo, az_hi)
        m = margin if ok else -margin
        cands.append(_cls(m, az_band(t_sez, max(r_s, r_t))))
        worst = m if worst is None else min(worst, m)
    mg["az_mask"] = worst
    st["az_mask"] = _merge(*cands)

    geo = {
        "fov_half": (fov[1] if fov[0] == "conic" else min(fov[1], fov[2])) * DEG / 2.0,
        "los_unit": "km" if min(r_s, r_t) >= A_EARTH else "sin_elevation",
        "h": math.hypot(t_sez[0], t_sez[1]),
        "rmax": max(r_s, r_t),
        "range": rng,
        "range_rate": range_rate_eci(sensor_eci, tgt),
        "az": azimuths(t_sez),
        "el": el,
        "slew_angle": slew_angle,
        "pointing_unit": vg.unit(p_sez),
        "lat": frame.lat,
        "lon": frame.lon,
    }

    # ---- radar sensitivity
    if spec["kind"] in ("radar", "adv_radar"):
        pr = radar_received_power(
            spec["tx_power"], spec["tx_frequency"], spec["diameter"], spec["efficiency"], area_m2, rng
        )
        rel = pr / spec["min_detectable_power"] - 1.0  # >= 0 detectable; d(rel)/rel = -4 d(range)/range
        mg["radar"] = rel
        st["radar"] = _cls(rel, 1e-8)
        geo["received_power"] = pr

    # ---- optical phenomenology
    if spec["kind"] == "optical":
        sun = [float(x) for x in sun_eci[:3]]
        tpos = [float(x) for x in tgt[:3]]
        spos = [float(x) for x in sensor_eci[:3]]
        if r_t > A_EARTH:
            frac, kind, (a, b, c) = vg.sun_fraction(tpos, sun)
            # boundary of total eclipse: c = b - a; margin in units of the solar angular radius
            m = (c - (b - a)) / a
            mg["solar_flux"] = m
            st["solar_flux"] = _cls(m, 1e-6)
            geo["sun_fraction"] = frac
        else:
            mg["solar_flux"] = float("nan")  # buried target: the line of sight already fails
            st["solar_flux"] = "either"
            frac = float("nan")
        phase = vg.angle_between([sun[i] - tpos[i] for i in range(3)], [spos[i] - tpos[i] for i in range(3)])
        mag = visual_magnitude(area_m2, reflectivity, phase, rng)
        mg["vizmag"] = spec["detectable_vismag"] - mag
        st["vizmag"] = _cls(mg["vizmag"], 1e-9)
        geo["phase"] = phase
        geo["vismag"] = mag
        gal = vg.angle_between(d_eci, vg.GALACTIC_UNIT)
        mg["galactic"] = gal - GALACTIC_EXCLUSION
        st["galactic"] = _cls(mg["galactic"], ANG_BAND)
        if spec["space"]:
            # Sun exclusion: boresight vs direction to the Sun, as seen from the sensor and (library's choice) from
            # the target; they differ by the parallax |rho| / 1 au <= 7e-4 rad -> either-way if they disagree
            a1 = vg.angle_between(d_eci, [sun[i] - spos[i] for i in range(3)])
            a2 = vg.angle_between(d_eci, [sun[i] - tpos[i] for i in range(3)])
            mg["space_illum"] = min(a1, a2) - SUN_EXCLUSION
            st["space_illum"] = _merge(_cls(a1 - SUN_EXCLUSION, ANG_BAND), _cls(a2 - SUN_EXCLUSION, ANG_BAND))
            # Earth limb: direction to the target vs the cone tangent to the sphere R + atmosphere about the nadir.
            # The library measures from the geodetic vertical: either-way inside the deflection of the vertical.
            nadir = vg.angle_between(d_eci, [-x for x in spos])
            cone = math.asin(min(1.0, (A_EARTH + ATMOSPHERE) / r_s))
            mg["limb"] = nadir - cone
            st["limb"] = _cls(mg["limb"], frame.deflection + ANG_BAND)
            geo["nadir_angle"] = nadir
            geo["limb_cone"] = cone
        else:
            # site darkness: Sun at least 15 deg below the horizontal plane; geocentric (Vallado 5-2, library) and
            # geodetic zenith differ by the deflection of the vertical -> either-way if they disagree
            sun_hat = vg.unit(sun)
            z1 = vg.angle_between(sun_hat, spos)
            z2 = vg.angle_between(frame.ecef_direction(sun), frame.Z)
            lim = math.pi / 2 + TWILIGHT
            mg["ground_illum"] = min(z1, z2) - lim
            st["ground_illum"] = _merge(_cls(z1 - lim, ANG_BAND), _cls(z2 - lim, ANG_BAND))
            geo["sun_zenith_angle"] = z1
    return st, mg, geo


def line_of_sight(a, b):
    """(status, margin) of the sight line between ECI positions ``a`` and ``b``.

    Both end points on or outside the sphere R_eq: exact (rational) segment-versus-sphere test, margin = closest
    approach - R_eq (km), band = derived double-precision error of the closest approach (visgeom.los_band).
    An end point inside that sphere (every ground site off the equator: the ellipsoid lies inside its equatorial
    sphere): an observer is never counted as buried by its own position, the sphere through the lower end point is
    used, i.e. the other end must be on or above the lower point's geocentric horizon; margin = sine of that
    geocentric elevation, band 1e-9 (dot-product rounding is ~1e-14).
    """
    a = [float(x) for x in a[:3]]
    b = [float(x) for x in b[:3]]
    ra, rb = vg.norm(a), vg.norm(b)
    if min(ra, rb) >= A_EARTH:
        _vis, closest, _t, _l = vg.los_exact(a, b, radius=A_EARTH)
        margin = closest - A_EARTH
        return _cls(margin, vg.los_band(a, b, radius=A_EARTH)), margin
    low, other = (a, b) if ra <= rb else (b, a)
    d = [other[i] - low[i] for i in range(3)]
    dist = vg.norm(d)
    if dist == 0.0:
        return "either", 0.0
    g = vg.dot(d, low) / (dist * vg.norm(low))
    return _cls(g, ANG_BAND), g
