"""Independent textbook reference for two-body orbital elements (oracle of C12).

Boring, self-contained formulae; nothing is imported from resonaate.  Conventions:

* classical elements (a, e, i, raan, argp, nu), angles in radians;
* ``coe2rv`` builds the perifocal unit vectors P, Q explicitly (no rotation-matrix products);
* ``rv2coe`` uses the vector formulae h = r x v, e = (v x h)/mu - r/|r|, n = k x h and ``atan2`` for every angle (no
  ``arccos`` + quadrant fix), so it shares neither algorithm nor conditioning with the code under test.  It is only
  *used* away from the singular cases (e, sin i well above the library's limits); singular cases are judged on
  Cartesian agreement;
* equinoctial elements follow the defining equations (Danielson 1995, 2.1.2) with the retrograde factor I = +1 / -1:
  h = e sin(argp + I raan), k = e cos(argp + I raan), p = tan(i/2)**I sin(raan), q = tan(i/2)**I cos(raan),
  lambda = M + argp + I raan;
* Kepler's equation is solved by safeguarded Newton (bisection bracket on the monotone function) to 1e-15.
"""
from __future__ import annotations

import math

import numpy as np

MU_EARTH = 398600.4415  # km^3/s^2 (EGM-96 value; resonaate's Earth.mu is asserted equal in the check)
TWOPI = 2.0 * math.pi


def wrap(x: float) -> float:
    """x modulo 2*pi in [0, 2*pi)."""
    y = math.fmod(x, TWOPI)
    if y < 0.0:
        y += TWOPI
    if y >= TWOPI:
        y = 0.0
    return y


def angdiff(a: float, b: float) -> float:
    """Smallest absolute difference of two angles (radians), in [0, pi]."""
    d = math.fmod(a - b, TWOPI)
    if d > math.pi:
        d -= TWOPI
    elif d < -math.pi:
        d += TWOPI
    return abs(d)


# ------------------------------------------------------------------------------------------------ classical <-> rv
def pq_vectors(inc, raan, argp):
    cO, sO = math.cos(raan), math.sin(raan)
    ci, si = math.cos(inc), math.sin(inc)
    cw, sw = math.cos(argp), math.sin(argp)
    P = np.array([cO * cw - sO * sw * ci, sO * cw + cO * sw * ci, sw * si])
    Q = np.array([-cO * sw - sO * cw * ci, -sO * sw + cO * cw * ci, cw * si])
    return P, Q


def coe2rv(a, e, inc, raan, argp, nu, mu=MU_EARTH):
    p = a * (1.0 - e * e)
    r = p / (1.0 + e * math.cos(nu))
    P, Q = pq_vectors(inc, raan, argp)
    rvec = r * (math.cos(nu) * P + math.sin(nu) * Q)
    vvec = math.sqrt(mu / p) * (-math.sin(nu) * P + (e + math.cos(nu)) * Q)
    return np.concatenate([rvec, vvec])


def rv_vectors(x, mu=MU_EARTH):
    """a, |h|, h_vec, e_vec for a Cartesian state."""
    r = np.asarray(x[:3], dtype=float)
    v = np.asarray(x[3:], dtype=float)
    rn = math.sqrt(float(r @ r))
    h = np.cross(r, v)
    evec = np.cross(v, h) / mu - r / rn
    a = 1.0 / (2.0 / rn - float(v @ v) / mu)
    return a, h, evec


def rv2coe(x, mu=MU_EARTH):
    """Textbook extraction; valid (well conditioned) when e and sin(i) are not tiny."""
    r = np.asarray(x[:3], dtype=float)
    a, h, evec = rv_vectors(x, mu)
    hn = math.sqrt(float(h @ h))
    hhat = h / hn
    e = math.sqrt(float(evec @ evec))
    inc = math.atan2(math.hypot(h[0], h[1]), h[2])
    raan = wrap(math.atan2(h[0], -h[1]))
    nhat = np.array([math.cos(raan), math.sin(raan), 0.0])
    mhat = np.cross(hhat, nhat)  # in-plane, 90 deg ahead of the node in the direction of motion
    argp = wrap(math.atan2(float(evec @ mhat), float(evec @ nhat)))
    nu = wrap(math.atan2(float(hhat @ np.cross(evec, r)), float(evec @ r)))
    arglat = wrap(math.atan2(float(r @ mhat), float(r @ nhat)))
    return {
        "a": a, "e": e, "inc": inc, "raan": raan, "argp": argp, "nu": nu, "arglat": arglat,
        "lonper": wrap(math.atan2(evec[1], evec[0])),  # inertial longitude of the eccentricity vector
        "truelon": wrap(math.atan2(r[1], r[0])),  # inertial longitude of the position
        "evec": evec, "h": h,
    }


# ------------------------------------------------------------------------------------------------ anomalies
def nu2E(nu, e):
    return wrap(2.0 * math.atan2(math.sqrt(1.0 - e) * math.sin(0.5 * nu), math.sqrt(1.0 + e) * math.cos(0.5 * nu)))


def E2nu(E, e):
    return wrap(2.0 * math.atan2(math.sqrt(1.0 + e) * math.sin(0.5 * E), math.sqrt(1.0 - e) * math.cos(0.5 * E)))


def E2M(E, e):
    return wrap(E - e * math.sin(E))


def M2E(M, e):
    """Root of E - e sin E = M (mod 2 pi), E in [0, 2 pi). Safeguarded Newton on the monotone function."""
    M = wrap(M)
    lo, hi = 0.0, TWOPI
    E = M if e < 0.8 else math.pi
    for _ in range(200):
        f = E - e * math.sin(E) - M
        if f > 0.0:
            hi = E
        else:
            lo = E
        step = f / (1.0 - e * math.cos(E))
        En = E - step
        if not (lo < En < hi):
            En = 0.5 * (lo + hi)
        if abs(En - E) < 1e-15:
            E = En
            break
        E = En
    return wrap(E)


def nu2M(nu, e):
    return E2M(nu2E(nu, e), e)


def M2nu(M, e):
    return E2nu(M2E(M, e), e)


def F2lam(F, h, k):
    return wrap(F + h * math.cos(F) - k * math.sin(F))


def lam2F(lam, h, k):
    """Root of F + h cos F - k sin F = lam: with h = e sin w, k = e cos w this is Kepler's equation in E = F - w."""
    e = math.hypot(h, k)
    w = math.atan2(h, k) if e > 0.0 else 0.0
    return wrap(M2E(lam - w, e) + w)


# ------------------------------------------------------------------------------------------------ equinoctial
def coe2eqe(a, e, inc, raan, argp, nu, retro=False):
    II = -1.0 if retro else 1.0
    t = math.tan(0.5 * inc)
    t = 1.0 / t if retro else t
    return (
        a,
        e * math.sin(argp + II * raan),
        e * math.cos(argp + II * raan),
        t * math.sin(raan),
        t * math.cos(raan),
        wrap(nu2M(nu, e) + argp + II * raan),
    )


def eqe_basis(p, q, retro=False):
    """Equinoctial basis from the geometric definition: rotate the node direction back by I*raan in the orbit plane."""
    II = -1.0 if retro else 1.0
    t = math.hypot(p, q)
    half = math.atan(t)
    inc = math.pi - 2.0 * half if retro else 2.0 * half
    raan = math.atan2(p, q) if t > 0.0 else 0.0
    nhat = np.array([math.cos(raan), math.sin(raan), 0.0])
    what = np.array([math.sin(inc) * math.sin(raan), -math.sin(inc) * math.cos(raan), math.cos(inc)])
    mhat = np.cross(what, nhat)
    ang = II * raan
    f = math.cos(ang) * nhat - math.sin(ang) * mhat
    g = math.sin(ang) * nhat + math.cos(ang) * mhat
    return f, g, what


def eqe2rv(a, h, k, p, q, lam, mu=MU_EARTH, retro=False):
    """Through the classical elements implied by the definitions (not through the equinoctial frame algebra)."""
    II = -1.0 if retro else 1.0
    e = math.hypot(h, k)
    t = math.hypot(p, q)
    inc = math.pi - 2.0 * math.atan(t) if retro else 2.0 * math.atan(t)
    raan = math.atan2(p, q) if t > 0.0 else 0.0
    lonper = math.atan2(h, k) if e > 0.0 else 0.0  # argp + I raan
    argp = lonper - II * raan
    nu = M2nu(lam - lonper, e)
    return coe2rv(a, e, inc, raan, argp, nu, mu)
