"""Independent reference geometry for C14 (visibility predicates).

Pure ``math`` / ``fractions`` code, no resonaate import.  Frames: SEZ = (South, East, Zenith); azimuth is measured
from north (-S) through east, elevation from the S-E plane towards Z (Vallado, Alg. 27).
"""
from __future__ import annotations

import math
from fractions import Fraction

R_EARTH = 6378.1363  # km  (value the library documents for Earth.radius; compared in the 'constants' subcheck)
ATMOSPHERE = 100.0  # km  (Earth.atmosphere: limb altitude)
R_SUN = 696000.0  # km
TWOPI = 2.0 * math.pi
EPS = 2.220446049250313e-16


# --------------------------------------------------------------------------------------------- small vector helpers
def dot(a, b):
    return a[0] * b[0] + a[1] * b[1] + a[2] * b[2]


def cross(a, b):
    return [a[1] * b[2] - a[2] * b[1], a[2] * b[0] - a[0] * b[2], a[0] * b[1] - a[1] * b[0]]


def norm(a):
    return math.sqrt(math.fsum(x * x for x in a[:3]))


def unit(a):
    n = norm(a)
    return [x / n for x in a[:3]]


def scale(a, k):
    return [x * k for x in a]


def add(*vs):
    return [math.fsum(c) for c in zip(*vs)]


def angle_between(a, b):
    """Angle between two 3-vectors, well conditioned everywhere (atan2 of |a x b| and a.b)."""
    return math.atan2(norm(cross(a, b)), dot(a, b))


def perp_frame(u):
    """Two unit vectors orthogonal to unit vector ``u`` and to each other (deterministic choice)."""
    k = [0.0, 0.0, 1.0] if abs(u[2]) < 0.9 else [1.0, 0.0, 0.0]
    e1 = unit(cross(k, u))
    e2 = unit(cross(u, e1))
    return e1, e2


def rotz(v, psi):
    """Rotate a 3- or 6-vector about the third (vertical) axis by ``psi`` (counter-clockwise seen from +Z)."""
    c, s = math.cos(psi), math.sin(psi)
    out = []
    for i in range(0, len(v), 3):
        x, y, z = v[i : i + 3]
        out += [c * x - s * y, s * x + c * y, z]
    return out


# --------------------------------------------------------------------------------------------- line of sight
def los_exact(a, b, radius=R_EARTH):
    """Exact (rational arithmetic) segment-versus-sphere test for float endpoints ``a``, ``b``.

    Returns (visible, closest_km, t_line, line_closest_km): ``visible`` iff min_{s in [0,1]} |a+s(b-a)| >= radius,
    ``t_line`` the unclamped parameter of the point of the infinite line closest to the origin.
    """
    fa = [Fraction(float(x)) for x in a[:3]]
    fb = [Fraction(float(x)) for x in b[:3]]
    d = [q - p for p, q in zip(fa, fb)]
    dd = sum(x * x for x in d)
    aa = sum(x * x for x in fa)
    if dd == 0:
        t_line = Fraction(0)
        c2 = aa
        line2 = aa
    else:
        ad = sum(p * q for p, q in zip(fa, d))
        t_line = -ad / dd
        line2 = aa + t_line * ad
        t = min(max(t_line, Fraction(0)), Fraction(1))
        c2 = aa + 2 * t * ad + t * t * dd
    visible = c2 >= Fraction(radius) ** 2
    return bool(visible), math.sqrt(float(c2)), float(t_line), math.sqrt(max(float(line2), 0.0))


def los_band(a, b, radius=R_EARTH):
    """Bound (km) on the error of the closest-approach distance when evaluated in double precision as
    V = (1-tau) r1^2 + tau r1.r2, tau = (r1^2 - r1.r2) / (r1^2 + r2^2 - 2 r1.r2):

    r1^2, r2^2, r1.r2 carry <= 4 eps M (M = max r^2); numerator <= 8 eps M, denominator <= 16 eps M, so
    d(tau) <= 24 eps M / |d|^2 on [0,1]; dV/dtau = -a.d, |a.d| <= r |d|; dV <= eps M (24 r/|d| + 8); d(dist) = dV/(2 R).
    A factor 4 of safety and a floor of 1e-9 km are added.  (<= 2e-8 km for every pair of the lattices, i.e. two orders
    below the smallest clearance 1e-6 km that is asserted.)
    """
    r1, r2 = norm(a), norm(b)
    big = max(r1, r2)
    dist = norm([q - p for p, q in zip(a[:3], b[:3])])
    if dist == 0.0:
        return 1e-9 + 4 * EPS * big * big * 8 / (2 * radius)
    return 1e-9 + 4 * EPS * big * big * (24 * big / dist + 8) / (2 * radius)


# --------------------------------------------------------------------------------------------- azimuth / elevation
def sez_from_azel(az, el, rho, vel=(0.0, 0.0, 0.0)):
    """6-vector in SEZ for azimuth ``az`` (from north through east), elevation ``el`` (radians) and range ``rho``."""
    ce = math.cos(el)
    return [-rho * ce * math.cos(az), rho * ce * math.sin(az), rho * math.sin(el), vel[0], vel[1], vel[2]]


def zenith_vector(rho, vel):
    return [0.0, 0.0, rho, vel[0], vel[1], vel[2]]


def is_zenith(v):
    return math.hypot(v[0], v[1]) <= 1e-12 * norm(v) and v[2] > 0


def near_zenith_ambiguous(v):
    """Horizontal part so small that which azimuth rule applies depends on rounding (never put in a lattice)."""
    h = math.hypot(v[0], v[1])
    return 1e-12 * norm(v) < h < 1e-6 * norm(v) and v[2] > 0


def wrap_0_2pi(x):
    y = math.fmod(x, TWOPI)
    if y < 0.0:
        y += TWOPI
    if y >= TWOPI:
        y -= TWOPI
    return y


def azimuth(v):
    """Azimuth in [0, 2pi): from the position, except exactly at the zenith where the velocity defines it."""
    if is_zenith(v):
        return wrap_0_2pi(math.atan2(v[4], -v[3]))
    return wrap_0_2pi(math.atan2(v[1], -v[0]))


def elevation(v):
    return math.atan2(v[2], math.hypot(v[0], v[1]))


POLE_BAND = 3e-8  # rad: an elevation obtained as arcsin(z / rho) cannot resolve a zenith distance below sqrt(2 eps) =
#                   2.1e-8 rad (z / rho rounds to exactly 1), so "elevation == 90 deg" is undecidable inside this band


def zenith_distance(v):
    """Angle of the position part of ``v`` from the local vertical +Z (atan2: well conditioned at the pole)."""
    return math.atan2(math.hypot(v[0], v[1]), v[2])


def elevation_band(v):
    """Rounding of an arcsin-based elevation of ``v``: two roundings of z / rho amplified by 1 / cos(el), never more
    than sqrt(2 eps) (the value at the pole itself)."""
    h = math.hypot(v[0], v[1])
    if h == 0.0:
        return POLE_BAND
    return min(POLE_BAND, 8 * EPS * norm(v) / h)


def azimuth_candidates(v):
    """(list of azimuths a correct implementation may report for 6-vector ``v``, undefined?).

    * generic direction: the bearing of the horizontal part of the POSITION, whatever the velocity is;
    * exactly at the zenith: the heading of the horizontal velocity (the convention ``getAzimuth`` documents);
    * zenith distance inside POLE_BAND (but not zero): whether the elevation "equals" 90 deg is a matter of rounding,
      both of the above are admissible;
    * no horizontal position AND no horizontal velocity (or exactly at the nadir): undefined, anything goes.
    The first candidate is always ``azimuth(v)``.
    """
    h = math.hypot(v[0], v[1])
    from_pos = wrap_0_2pi(math.atan2(v[1], -v[0]))
    has_vel = math.hypot(v[3], v[4]) > 0.0
    from_vel = wrap_0_2pi(math.atan2(v[4], -v[3]))
    if is_zenith(v):
        return [from_vel], not has_vel
    if v[2] > 0 and zenith_distance(v) < POLE_BAND:
        return ([from_pos, from_vel], False) if has_vel else ([from_pos], True)
    if v[2] < 0 and h == 0.0:
        return [from_pos], True
    return [from_pos], False


def wrapped_diff(x, y):
    """Signed difference x - y on the circle, in [-pi, pi] (IEEE remainder)."""
    return math.remainder(x - y, TWOPI)


def circ_dist(x, y):
    return abs(wrapped_diff(x, y))


# --------------------------------------------------------------------------------------------- field of view
def conic_offset(p, t):
    return angle_between(p[:3], t[:3])


def rect_offsets(p, t):
    """(|wrapped azimuth difference|, |elevation difference|, raw |azimuth difference| without wrapping)."""
    azp, azt = azimuth(p), azimuth(t)
    return circ_dist(azp, azt), abs(elevation(p) - elevation(t)), abs(azp - azt)


def offset_target(p_unit, d, theta):
    """Unit vector at angular distance ``d`` from unit vector ``p_unit`` along position angle ``theta``."""
    e1, e2 = perp_frame(p_unit)
    side = add(scale(e1, math.cos(theta)), scale(e2, math.sin(theta)))
    return add(scale(p_unit, math.cos(d)), scale(side, math.sin(d)))


# --------------------------------------------------------------------------------------------- azimuth mask
def mask_admits(az, lo, hi):
    """Closed, possibly wrapping, azimuth interval [lo, hi] travelled from lo through east to hi.

    Returns (admitted, margin) with margin the angular distance of ``az`` to the nearest interval end.
    """
    width = wrap_0_2pi(hi - lo) if hi != lo else 0.0
    pos = wrap_0_2pi(az - lo)
    margin = min(circ_dist(az, lo), circ_dist(az, hi))
    return pos <= width, margin


# --------------------------------------------------------------------------------------------- Sun fraction
def sun_angles(r, s, r_earth=R_EARTH, r_sun=R_SUN):
    d = [q - p for p, q in zip(r[:3], s[:3])]
    a = math.asin(min(1.0, r_sun / norm(d)))
    b = math.asin(min(1.0, r_earth / norm(r)))
    c = angle_between([-x for x in r[:3]], d)
    return a, b, c


def sun_fraction(r, s, r_earth=R_EARTH, r_sun=R_SUN):
    """Visible fraction of the solar disc (conical shadow model: two discs of angular radii a, b at separation c,
    overlap area by the circle-circle lens formula in Heron form).  Returns (fraction, kind, (a, b, c))."""
    a, b, c = sun_angles(r, s, r_earth, r_sun)
    if c >= a + b:
        return 1.0, "clear", (a, b, c)
    if c <= b - a:
        return 0.0, "umbra", (a, b, c)
    if c <= a - b:
        return 1.0 - (b * b) / (a * a), "annular", (a, b, c)
    k1 = (c * c + a * a - b * b) / (2 * c * a)
    k2 = (c * c + b * b - a * a) / (2 * c * b)
    k1 = max(-1.0, min(1.0, k1))
    k2 = max(-1.0, min(1.0, k2))
    heron = max(0.0, (-c + a + b) * (c + a - b) * (c - a + b) * (c + a + b))
    area = a * a * math.acos(k1) + b * b * math.acos(k2) - 0.5 * math.sqrt(heron)
    return 1.0 - area / (math.pi * a * a), "penumbra", (a, b, c)


# --------------------------------------------------------------------------------------------- Earth limb
def limb_cone(r_sensor, r_earth=R_EARTH, atmosphere=ATMOSPHERE):
    """Half-angle of the cone tangent to the limb sphere (radius Earth + atmosphere) seen from distance r_sensor."""
    return math.asin((r_earth + atmosphere) / r_sensor)


def nadir_angle(v):
    """Angle of SEZ direction ``v`` from the nadir (-Z)."""
    return math.atan2(math.hypot(v[0], v[1]), -v[2])


# --------------------------------------------------------------------------------------------- local frame in ECI
def local_sez_axes(host_pos):
    """Geometric S, E, Z unit axes at ECI position ``host_pos`` (Z radial, E = k x Z, S = E x Z)."""
    z = unit(host_pos)
    k = [0.0, 0.0, 1.0]
    e = unit(cross(k, z))
    s = cross(e, z)
    return s, e, z


def sez_to_eci_offset(host_pos, sez):
    s, e, z = local_sez_axes(host_pos)
    return add(scale(s, sez[0]), scale(e, sez[1]), scale(z, sez[2]))


GALACTIC_RA = math.radians((17 + 45 / 60 + 40.04 / 3600) * 15.0)
GALACTIC_DEC = -math.radians(29 + 0 / 60 + 28.1 / 3600)
GALACTIC_UNIT = [
    math.cos(GALACTIC_DEC) * math.cos(GALACTIC_RA),
    math.cos(GALACTIC_DEC) * math.sin(GALACTIC_RA),
    math.sin(GALACTIC_DEC),
]


def eci_offset_to_sez(host_pos, d):
    """Components of ECI offset ``d`` on the geometric S, E, Z axes at ``host_pos`` (inverse of sez_to_eci_offset)."""
    s, e, z = local_sez_axes(host_pos)
    return [dot(d, s), dot(d, e), dot(d, z)]


# --------------------------------------------------------------------------------------------- sensor-level geometry
def direction_from_nadir(host_pos, eta, psi):
    """ECI unit vector at angle ``eta`` from the nadir (-host_pos) of an observer, position angle ``psi`` about it."""
    n = scale(unit(host_pos), -1.0)
    p1, p2 = perp_frame(n)
    side = add(scale(p1, math.cos(psi)), scale(p2, math.sin(psi)))
    return add(scale(n, math.cos(eta)), scale(side, math.sin(eta)))


def ray_sphere_ranges(r_obs, eta, r_shell):
    """Positive distances along a ray leaving an observer at geocentric distance ``r_obs`` at nadir angle ``eta`` at which
    the ray crosses the geocentric sphere of radius ``r_shell`` (0, 1 or 2 values, ascending)."""
    disc = r_shell * r_shell - (r_obs * math.sin(eta)) ** 2
    if disc < 0.0:
        return []
    mid, half = r_obs * math.cos(eta), math.sqrt(disc)
    return sorted(s for s in {mid - half, mid + half} if s > 0.0)


def in_limb_cone_eci(host_pos, tgt_pos, r_earth=R_EARTH, atmosphere=ATMOSPHERE):
    """Tangent-cone test in the inertial frame: (inside, angle from nadir of the line host -> target, cone half-angle).
    The cone has its apex at the OBSERVER and is tangent to the sphere of radius r_earth + atmosphere."""
    d = [q - p for p, q in zip(host_pos[:3], tgt_pos[:3])]
    eta = angle_between(scale(host_pos[:3], -1.0), d)
    cone = limb_cone(norm(host_pos), r_earth, atmosphere)
    return eta < cone, eta, cone


# --------------------------------------------------------------------------------------------- photometry / radar range
SUN_MAGNITUDE = -26.74  # apparent visual magnitude of the Sun (Cognion 2013, Eq. 3)


def lambert_phase(phi):
    """Diffuse (Lambertian) sphere phase function, Cognion 2013 Eq. 1; phi = Sun-object-observer angle."""
    return 2.0 * ((math.pi - phi) * math.cos(phi) + math.sin(phi)) / (3.0 * math.pi * math.pi)


def apparent_vismag(area_m2, reflectivity, sun_pos, tgt_pos, obs_pos):
    """Apparent visual magnitude of a diffuse sphere of cross-section ``area_m2`` seen from ``obs_pos`` (km)."""
    to_sun = [q - p for p, q in zip(tgt_pos[:3], sun_pos[:3])]
    to_obs = [q - p for p, q in zip(tgt_pos[:3], obs_pos[:3])]
    phi = angle_between(to_sun, to_obs)
    rng_m = norm(to_obs) * 1000.0
    return SUN_MAGNITUDE - 2.5 * math.log10(area_m2 * reflectivity * lambert_phase(phi) / (rng_m * rng_m)), phi


def radar_max_range_km(tx_power_w, diameter_m, efficiency, frequency_hz, min_power_w, area_m2):
    """Radar range equation solved for the range at which the echo of a flat plate of area ``area_m2`` (RCS = 4 pi A^2 /
    lambda^2), seen with a circular aperture of gain eta (pi D / lambda)^2, equals ``min_power_w``."""
    lam = 2.99792458e8 / frequency_hz
    gain = efficiency * (math.pi * diameter_m / lam) ** 2
    rcs = 4.0 * math.pi * area_m2 * area_m2 / (lam * lam)
    r4 = tx_power_w * gain * gain * lam * lam * rcs / ((4.0 * math.pi) ** 3 * min_power_w)
    return r4 ** 0.25 / 1000.0
