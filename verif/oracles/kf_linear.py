"""Reference model for C06: textbook Kalman filter on linear-Gaussian systems, deterministic matrix alphabets and
closed forms of the process-noise builders.  Written without looking at the filter's code path: plain numpy linear
algebra on (F, H, P, Q, R); no sigma points, no weights (except ``ut_weights`` = the documented closed forms).
"""
from __future__ import annotations

import itertools
import math

import numpy as np

EPS = 2.220446049250313e-16
PRIMES = [2, 3, 5, 7, 11, 13, 17, 19, 23, 29, 31, 37, 41, 43, 47, 53]


# ---------------------------------------------------------------------------------------------- deterministic numbers
def vdc(i: int, base: int) -> float:
    """van der Corput radical inverse of the integer i >= 1 in the given base; in (0, 1)."""
    f, r = 1.0, 0.0
    while i > 0:
        f /= base
        r += f * (i % base)
        i //= base
    return r


def halton_matrix(rows: int, cols: int, start: int) -> np.ndarray:
    """rows x cols matrix with entries in (-1, 1): entry (r, c) = 2*vdc(start + r, prime[c]) - 1."""
    out = np.empty((rows, cols))
    for r in range(rows):
        for c in range(cols):
            out[r, c] = 2.0 * vdc(start + r + 1, PRIMES[c % len(PRIMES)] if c < len(PRIMES) else 59) - 1.0
    return out


def halton_vector(n: int, start: int, base: int = 3) -> np.ndarray:
    return np.array([2.0 * vdc(start + k + 1, base) - 1.0 for k in range(n)])


F_KINDS = ["identity", "shift_plus_identity", "rotation_blocks", "halton_dense"]
COV_KINDS = ["identity", "diag_1_to_n", "gram_full", "ill_conditioned"]


def make_F(kind: int, n: int, phase: int) -> np.ndarray:
    if kind == 0:
        return np.eye(n)
    if kind == 1:  # constant-velocity style chain: I + 0.5 * superdiagonal
        return np.eye(n) + 0.5 * np.diag(np.ones(n - 1), 1) if n > 1 else np.array([[1.0]])
    if kind == 2:  # 2x2 rotation blocks (angle depends on the phase), a 0.8 contraction on the odd last coordinate
        th = 0.3 + 0.1 * (phase % 7)
        out = np.zeros((n, n))
        for k in range(0, n - 1, 2):
            c, s = math.cos(th * (1 + k / 2)), math.sin(th * (1 + k / 2))
            out[k : k + 2, k : k + 2] = [[c, -s], [s, c]]
        if n % 2:
            out[n - 1, n - 1] = 0.8
        return out
    if kind == 3:  # dense, fixed by the Halton phase, norm about 1
        return halton_matrix(n, n, 11 + 3 * (phase % 101)) / math.sqrt(n) + 0.6 * np.eye(n)
    raise ValueError(kind)


def make_cov(kind: int, n: int, phase: int, scale: float = 1.0, reverse: bool = False) -> np.ndarray:
    """Symmetric positive-definite n x n matrix of the named kind (exactly symmetric by construction)."""
    if kind == 0:
        return scale * np.eye(n)
    if kind == 1:
        d = np.arange(1, n + 1, dtype=float)
        return scale * np.diag(d[::-1] if reverse else d)
    g = halton_matrix(n, n + 2, 5 + 7 * (phase % 89))
    gram = g @ g.T / (n + 2) + 0.25 * np.eye(n)
    gram = 0.5 * (gram + gram.T)
    if kind == 2:
        return scale * gram
    if kind == 3:  # D C D with a well-conditioned correlation-like C and variances spread over 1e-6 .. 1e6
        d = np.logspace(-3.0, 3.0, n) if n > 1 else np.array([1e3])
        if reverse:
            d = d[::-1]
        m = gram * np.outer(d, d)
        return scale * 0.5 * (m + m.T)
    raise ValueError(kind)


def compositions(max_parts: int = 4, dims=(1, 2, 3, 4), max_total: int = 8) -> list:
    """Every ordered stack of 1..max_parts observations with dimensions from dims and total dimension <= max_total."""
    out = []
    for k in range(1, max_parts + 1):
        for c in itertools.product(dims, repeat=k):
            if sum(c) <= max_total:
                out.append(tuple(c))
    return out


# ---------------------------------------------------------------------------------------------- unscented weights
def ut_weights(n: int, alpha: float, beta: float, kappa):
    """Closed forms from the class docstring / Wan & van der Merwe: lambda = a^2 (n + k) - n, k defaults to 3 - n."""
    if kappa is None:
        kappa = 3.0 - n
    lam = alpha * alpha * (n + kappa) - n
    wm = np.full(2 * n + 1, 1.0 / (2.0 * (n + lam)))
    wm[0] = lam / (n + lam)
    wc = wm.copy()
    wc[0] = wm[0] + (1.0 - alpha * alpha + beta)
    return lam, math.sqrt(n + lam), wm, wc


# ---------------------------------------------------------------------------------------------- textbook Kalman filter
def kf_predict(x, p, f, q):
    xm = f @ x
    pprop = f @ p @ f.T
    pprop = 0.5 * (pprop + pprop.T)
    return xm, pprop + q, pprop


def _update(xm, pm, p_used, hs, rs, ys, bs):
    """Measurement update with the stacked (affine) measurement y = H x + b + v, v ~ N(0, blockdiag(R_i)).

    ``p_used`` is the covariance entering cross/innovation covariances (= pm for the Kalman filter)."""
    h = np.vstack(hs)
    b = np.concatenate(bs)
    y = np.concatenate(ys)
    m = h.shape[0]
    r = np.zeros((m, m))
    k0 = 0
    for ri in rs:
        d = ri.shape[0]
        r[k0 : k0 + d, k0 : k0 + d] = ri
        k0 += d
    yhat = h @ xm + b
    s = h @ p_used @ h.T + r
    s = 0.5 * (s + s.T)
    c = p_used @ h.T
    gain = np.linalg.solve(s, c.T).T
    nu = y - yhat
    post = pm - gain @ s @ gain.T
    return {
        "r_matrix": r,
        "true_y": y,
        "mean_pred_y": yhat,
        "innov_cvr": s,
        "cross_cvr": c,
        "kalman_gain": gain,
        "innovation": nu,
        "nis": float(nu @ np.linalg.solve(s, nu)),
        "est_p": 0.5 * (post + post.T),
        "est_x": xm + gain @ nu,
    }


def kf_update(xm, pm, hs, rs, ys, bs):
    return _update(xm, pm, pm, hs, rs, ys, bs)


def variant_update(xm, pm, pprop, hs, rs, ys, bs):
    """Documented no-redraw variant: the propagated sigma points carry F P F^T (no Q), so
    K = (P- - Q) H^T (H (P- - Q) H^T + R)^-1 and P+ = P- - K S K^T."""
    return _update(xm, pm, pprop, hs, rs, ys, bs)


def stale_xres_update(xm, pm, f_l_prev, hs, rs, ys, bs):
    """Diagnostic only (classifies a deviation, never makes a case pass): redrawn measurement residuals H L' combined
    with state residuals F L kept from the prediction, i.e. cross covariance (F L)(L')^T H^T."""
    out = _update(xm, pm, pm, hs, rs, ys, bs)
    h = np.vstack(hs)
    lp = np.linalg.cholesky(pm)
    c = f_l_prev @ lp.T @ h.T
    s = out["innov_cvr"]
    gain = np.linalg.solve(s, c.T).T
    out["cross_cvr"] = c
    out["kalman_gain"] = gain
    out["est_p"] = pm - gain @ s @ gain.T
    out["est_x"] = xm + gain @ out["innovation"]
    return out


# ---------------------------------------------------------------------------------------------- comparisons
def sym_err(m, d=None) -> float:
    """max |M - M^T|_ij / (d_i d_j); d defaults to sqrt|diag M|."""
    m = np.asarray(m, dtype=float)
    if m.ndim != 2 or m.shape[0] != m.shape[1] or not np.all(np.isfinite(m)):
        return float("inf")
    if d is None:
        d = np.sqrt(np.abs(np.diag(m)))
        d = np.where(d > 0, d, 1.0)
    if len(d) != m.shape[0]:
        return float("inf")
    return float(np.max(np.abs(m - m.T) / np.outer(d, d)))


def scaled_min_eig(m, d) -> float:
    """Smallest eigenvalue of D^-1 sym(M) D^-1 (D = diag(d)): a scale-free PSD margin."""
    m = np.asarray(m, dtype=float)
    if m.ndim != 2 or m.shape != (len(d), len(d)) or not np.all(np.isfinite(m)):
        return float("-inf")
    ms = 0.5 * (m + m.T) / np.outer(d, d)
    return float(np.linalg.eigvalsh(ms)[0])


def scaled_err(obs, ref, d_row, d_col) -> float:
    obs = np.asarray(obs, dtype=float)
    ref = np.asarray(ref, dtype=float)
    if obs.shape != ref.shape:
        return float("inf")
    if not np.all(np.isfinite(obs)):
        return float("inf")
    sc = np.outer(d_row, d_col)
    denom = max(1.0, float(np.max(np.abs(ref) / sc)))
    return float(np.max(np.abs(obs - ref) / sc)) / denom


def vec_err(obs, ref, floor=1.0) -> float:
    obs = np.asarray(obs, dtype=float)
    ref = np.asarray(ref, dtype=float)
    if obs.shape != ref.shape or not np.all(np.isfinite(obs)):
        return float("inf")
    if ref.size == 0:
        return 0.0
    return float(np.max(np.abs(obs - ref))) / max(floor, float(np.max(np.abs(ref))))


def scaled_cond(s) -> float:
    d = np.sqrt(np.diag(s))
    return float(np.linalg.cond(s / np.outer(d, d)))


# ---------------------------------------------------------------------------------------------- process noise closed forms
def discrete_white_noise_ref(dt: float, sigma: float) -> np.ndarray:
    """Bar-Shalom 6.3.2-4: Q = Gamma sigma^2 Gamma^T, Gamma = [T^2/2 I3; T I3] (piecewise-constant acceleration)."""
    gamma = np.vstack([0.5 * dt * dt * np.eye(3), dt * np.eye(3)])
    return (gamma @ gamma.T) * (sigma * sigma)


def continuous_white_noise_ref(dt: float, q: float) -> np.ndarray:
    """Bar-Shalom 6.2.2-12: Q = q * int_0^T [T-s; 1][T-s, 1] ds, evaluated with Simpson's rule (exact for quadratics)."""
    def integrand(s):
        v = np.array([dt - s, 1.0])
        return np.outer(v, v)

    two = (dt / 6.0) * (integrand(0.0) + 4.0 * integrand(0.5 * dt) + integrand(dt))
    return np.kron(two, np.eye(3)) * q


def simple_noise_ref(dt: float, std: float) -> np.ndarray:
    out = np.zeros((6, 6))
    for k in (3, 4, 5):
        out[k, k] = dt * std * std
    return out
