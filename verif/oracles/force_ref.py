"""Independent reference for C13: the special-perturbations force model and the Sun/Moon/planet ephemerides.

Everything here is written from published formulae with boring code and imports *nothing* from the functions under
test (no V/W Cunningham recursion, no ``chebval``/Clenshaw, no Vallado 8-35 ``q`` form, no Montenbruck x/y lens form):

* geopotential: own parse of the coefficient file (fully normalised C-bar/S-bar are used as they are written, they are
  never un-normalised), fully normalised associated Legendre functions by the standard forward column recursion, the
  spherical partials dU/dr, dU/dphi, dU/dlambda and their rotation to Cartesian ECEF.  The latitude derivative uses the
  non-singular "m+1 / m-1" identity and the longitude term uses Q_nm = P_nm / cos(phi) (own seeds), so the formulation
  has no pole singularity; a closed-form pole limit and central differences of the potential are kept for self checks.
* third bodies: direct formula mu*((s-r)/|s-r|^3 - s/|s|^3) in 50-digit ``decimal`` arithmetic (the direct formula
  loses r/d ~ 1e-5 of its digits in doubles).
* SRP: cannonball -P*(C_R A/m)*(AU/d)^2 * s_hat * nu, nu = 1 - lens area / solar disc area from the symmetric
  two-circle lens formula with Heron's kernel, angles from atan2(|a x b|, a.b).
* relativity: Schwarzschild term of IERS Conventions (2010) eq. 10.12 with beta = gamma = 1.
* ephemerides: own reading of the .npy kernel segments (file name -> NAIF centre/target, start, interval), own index
  arithmetic, Chebyshev polynomials by T_k(x) = cos(k arccos x); low-precision analytic Sun and Moon of the
  Astronomical Almanac (Vallado alg. 29 / 31) precessed from mean-of-date to J2000.

Shared with the implementation: the data files (parsed here), and - passed in by the caller - the ECEF<->ECI rotation
(subject of C04), the astronomical unit and the third-body GMs (compared with literature values by the check).
"""
from __future__ import annotations

import math
import os
from decimal import Decimal, getcontext

import numpy as np

getcontext().prec = 50

# ---------------------------------------------------------------------------------------------- own literals
MU_EARTH = 398600.4415  # km^3/s^2 : GM the EGM96 / EGM2008 / JGM-3 / GGM03S coefficient sets are referred to
R_EARTH = 6378.1363  # km       : reference radius of the same four coefficient sets
C_LIGHT = 299792458.0  # m/s      : exact (SI definition)
SOLAR_FLUX = 1367.0  # W/m^2    : solar constant used by Montenbruck & Gill eq. 3.67 (P = 4.56e-6 N/m^2)
R_SUN = 696000.0  # km       : Montenbruck & Gill sec. 3.4.2
AU_IAU = 149597870.7  # km       : IAU 2012 resolution B2
# GM of the perturbing bodies (km^3/s^2): DE430/DE432 header values (Folkner et al. 2014, table 8); planets = systems
GM_LIT = {
    "sun": 132712440041.9394,
    "moon": 4902.800066,
    "jupiter": 126712764.8,
    "saturn": 37940585.2,
    "venus": 324858.592,
}
# heliocentric distance ranges (AU) of the planets (perihelion .. aphelion, J2000 elements, +-0.2 % margin)
HELIO_AU = {"venus": (0.7170, 0.7297), "jupiter": (4.940, 5.466), "saturn": (8.99, 10.14)}
NAIF_BARYCENTRE = {"venus": 2, "jupiter": 5, "saturn": 6}
BODIES = ("sun", "moon", "jupiter", "saturn", "venus")


def data_path(*parts):
    import resonaate  # noqa: PLC0415  (only to locate the data files of the tree under test)

    return os.path.join(os.path.dirname(os.path.abspath(resonaate.__file__)), "physics", "data", *parts)


# ---------------------------------------------------------------------------------------------- coefficient files
_COEFF = {}


def load_coefficients(filename):
    """Own parse: every line 'n m Cbar Sbar [sigmaC sigmaS]' -> (Cbar[n,m], Sbar[n,m], n_max, rows).  Values as written."""
    if filename not in _COEFF:
        rows = []
        with open(data_path("geopotential", filename), encoding="utf-8") as fh:
            for line in fh:
                tok = line.replace("D", "E").replace("d", "e").split()
                if len(tok) < 4:
                    continue
                rows.append((int(tok[0]), int(tok[1]), float(tok[2]), float(tok[3])))
        nmax = max(r[0] for r in rows)
        cbar = np.zeros((nmax + 1, nmax + 1))
        sbar = np.zeros((nmax + 1, nmax + 1))
        seen = set()
        for n, m, c, s in rows:
            if (n, m) in seen:
                raise ValueError(f"{filename}: duplicate row {n},{m}")
            seen.add((n, m))
            cbar[n, m] = c
            sbar[n, m] = s
        _COEFF[filename] = (cbar, sbar, nmax, len(rows))
    return _COEFF[filename]


def unnormalise_factor(n, m):
    """C_nm = factor * Cbar_nm with factor = sqrt(k (2n+1) (n-m)! / (n+m)!), k = 1 (m = 0) or 2.  Exact integer ratio."""
    k = 1 if m == 0 else 2
    num = k * (2 * n + 1) * math.factorial(n - m)
    den = math.factorial(n + m)
    # sqrt of an exact rational, evaluated with decimal to stay clear of float overflow of the factorials
    return float((Decimal(num) / Decimal(den)).sqrt())


# ---------------------------------------------------------------------------------------------- Legendre functions
def alf_bar(nmax, sphi, cphi):
    """Fully normalised associated Legendre functions P[n,m](sin phi) and Q[n,m] = P[n,m]/cos(phi) (m >= 1).

    Geodesy convention (no Condon-Shortley phase): integral of (P_nm cos m lambda)^2 over the sphere = 4 pi.
    Arrays are (nmax+2, nmax+2) so that P[n, m+1] and P[n, m-1] exist for every m <= n <= nmax (zero above diagonal).
    """
    size = nmax + 2
    p = np.zeros((size, size))
    q = np.zeros((size, size))
    p[0, 0] = 1.0
    if nmax >= 1:
        p[1, 1] = math.sqrt(3.0) * cphi
        q[1, 1] = math.sqrt(3.0)
    for m in range(2, nmax + 1):
        f = math.sqrt((2.0 * m + 1.0) / (2.0 * m))
        p[m, m] = f * cphi * p[m - 1, m - 1]
        q[m, m] = f * cphi * q[m - 1, m - 1]
    for m in range(nmax + 1):
        for n in range(m + 1, nmax + 1):
            a = math.sqrt((4.0 * n * n - 1.0) / (n * n - m * m))
            if n - 2 >= m:
                b = math.sqrt(((2.0 * n + 1.0) * (n + m - 1.0) * (n - m - 1.0)) / ((n - m) * (n + m) * (2.0 * n - 3.0)))
                p[n, m] = a * sphi * p[n - 1, m] - b * p[n - 2, m]
                q[n, m] = a * sphi * q[n - 1, m] - b * q[n - 2, m]
            else:
                p[n, m] = a * sphi * p[n - 1, m]
                q[n, m] = a * sphi * q[n - 1, m]
    return p, q


def dalf_bar_dphi(p, n, m):
    """dPbar_nm/dphi from the neighbours of the same degree (non-singular identity).

    Un-normalised: dP_nm/dphi = 1/2 [P_n,m+1 - (n+m)(n-m+1) P_n,m-1]  (m >= 1),  dP_n0/dphi = P_n1.
    """
    if m == 0:
        return math.sqrt(n * (n + 1) / 2.0) * p[n, 1]
    up = math.sqrt((n - m) * (n + m + 1.0)) * p[n, m + 1]
    down = math.sqrt((n + m) * (n - m + 1.0)) * p[n, m - 1]
    if m == 1:
        down *= math.sqrt(2.0)
    return 0.5 * (up - down)


def _term_list(cbar, sbar, nmax, mmax, n_min=2):
    out = []
    for n in range(n_min, nmax + 1):
        for m in range(0, min(n, mmax) + 1):
            c = cbar[n, m] if n < cbar.shape[0] else 0.0
            s = sbar[n, m] if n < sbar.shape[0] else 0.0
            if c != 0.0 or s != 0.0:
                out.append((n, m, c, s))
    return out


def geopotential_value(r_ecef, terms, mu=MU_EARTH, radius=R_EARTH):
    """Non-central potential U (km^2/s^2) = mu/r sum (R/r)^n Pbar_nm (Cbar cos m lam + Sbar sin m lam)."""
    x, y, z = (float(v) for v in r_ecef)
    rho = math.hypot(x, y)
    r = math.hypot(rho, z)
    lam = math.atan2(y, x)
    nmax = max((t[0] for t in terms), default=0)
    p, _ = alf_bar(nmax, z / r, rho / r)
    total = 0.0
    for n, m, c, s in terms:
        total += (radius / r) ** n * p[n, m] * (c * math.cos(m * lam) + s * math.sin(m * lam))
    return mu / r * total


def geopotential_accel_terms(r_ecef, terms, mu=MU_EARTH, radius=R_EARTH):
    """Gradient of the non-central potential in ECEF Cartesian components (km/s^2), spherical partials route."""
    x, y, z = (float(v) for v in r_ecef)
    rho = math.hypot(x, y)
    r = math.hypot(rho, z)
    sphi, cphi = z / r, rho / r
    lam = math.atan2(y, x)
    cl, sl = math.cos(lam), math.sin(lam)
    nmax = max((t[0] for t in terms), default=0)
    p, q = alf_bar(nmax, sphi, cphi)
    s_r = s_phi = s_lam = 0.0
    # small terms first
    for n, m, c, s in sorted(terms, key=lambda t: (-t[0], -t[1])):
        rn = (radius / r) ** n
        cm, sm = math.cos(m * lam), math.sin(m * lam)
        s_r += -(n + 1) * rn * p[n, m] * (c * cm + s * sm)
        s_phi += rn * dalf_bar_dphi(p, n, m) * (c * cm + s * sm)
        if m:
            s_lam += rn * m * q[n, m] * (s * cm - c * sm)
    g = mu / (r * r)
    a_r, a_phi, a_lam = g * s_r, g * s_phi, g * s_lam
    e_r = np.array([cphi * cl, cphi * sl, sphi])
    e_phi = np.array([-sphi * cl, -sphi * sl, cphi])
    e_lam = np.array([-sl, cl, 0.0])
    return a_r * e_r + a_phi * e_phi + a_lam * e_lam


def geopotential_accel(r_ecef, filename, degree, order, mu=MU_EARTH, radius=R_EARTH):
    """Non-central acceleration of the coefficient set truncated at n <= degree, m <= min(n, order), n >= 2."""
    cbar, sbar, _, _ = load_coefficients(filename)
    return geopotential_accel_terms(r_ecef, _term_list(cbar, sbar, degree, order), mu, radius)


def geopotential_accel_pole(sign, r, terms, mu=MU_EARTH, radius=R_EARTH):
    """Closed-form limit on the polar axis z = sign*r: only m = 0 (vertical) and m = 1 (horizontal) contribute.

    Pbar_n0(+-1) = (+-1)^n sqrt(2n+1);  lim Pbar_n1/cos(phi) = (+-1)^(n+1) sqrt((2n+1) n (n+1) / 2).
    """
    ax = ay = ar = 0.0
    for n, m, c, s in terms:
        rn = (radius / r) ** n
        if m == 0:
            ar += -(n + 1) * rn * (sign**n) * math.sqrt(2 * n + 1.0) * c
        elif m == 1:
            k = (sign ** (n + 1)) * math.sqrt((2 * n + 1.0) * n * (n + 1) / 2.0)
            ax += rn * k * c
            ay += rn * k * s
    g = mu / (r * r)
    return np.array([g * ax, g * ay, g * ar * sign])


def geopotential_accel_fd(r_ecef, terms, h=2.0):
    """Sixth-order central differences of the potential (self check of the analytic gradient)."""
    r_ecef = np.asarray(r_ecef, dtype=float)
    out = np.zeros(3)
    w = ((1, 3.0 / 4.0), (2, -3.0 / 20.0), (3, 1.0 / 60.0))
    for i in range(3):
        e = np.zeros(3)
        e[i] = h
        acc = 0.0
        for k, wk in w:
            acc += wk * (geopotential_value(r_ecef + k * e, terms) - geopotential_value(r_ecef - k * e, terms))
        out[i] = acc / h
    return out


def harmonics_vw(r_ecef, n, m, radius=R_EARTH):
    """Definition of the Cunningham/Montenbruck V_nm, W_nm (M&G eq. 3.27):
    V_nm = (R/r)^(n+1) P_nm(sin phi) cos(m lam), W_nm = ... sin(m lam), P_nm un-normalised."""
    x, y, z = (float(v) for v in r_ecef)
    rho = math.hypot(x, y)
    r = math.hypot(rho, z)
    lam = math.atan2(y, x)
    p, _ = alf_bar(n, z / r, rho / r)
    pnm = p[n, m] / unnormalise_factor(n, m)
    base = (radius / r) ** (n + 1) * pnm
    return base * math.cos(m * lam), base * math.sin(m * lam)


# ---------------------------------------------------------------------------------------------- point mass & others
def point_mass(r, mu=MU_EARTH):
    r = np.asarray(r, dtype=float)
    d = math.sqrt(float(r[0]) ** 2 + float(r[1]) ** 2 + float(r[2]) ** 2)
    return -mu * r / (d * d * d)


def third_body_accel(r_sat, r_body, mu):
    """mu * ((s - r)/|s - r|^3 - s/|s|^3), evaluated in 50-digit decimals."""
    r = [Decimal(float(v)) for v in r_sat]
    s = [Decimal(float(v)) for v in r_body]
    d = [si - ri for si, ri in zip(s, r)]
    dn = sum(v * v for v in d).sqrt()
    sn = sum(v * v for v in s).sqrt()
    mu_d = Decimal(float(mu))
    return np.array([float(mu_d * (di / dn**3 - si / sn**3)) for di, si in zip(d, s)])


def _angle(a, b):
    a = np.asarray(a, dtype=float)
    b = np.asarray(b, dtype=float)
    c = np.array([a[1] * b[2] - a[2] * b[1], a[2] * b[0] - a[0] * b[2], a[0] * b[1] - a[1] * b[0]])
    return math.atan2(math.sqrt(float(c @ c)), float(a @ b))


def lens_area(a, b, c):
    """Area common to two circles of radii a, b whose centres are c apart (|a-b| < c < a+b), and the half chord y.

    Symmetric form with Heron's kernel; the half angles come from atan2(y, x) so that nothing is lost when the
    chord is short compared with a radius (acos of a number next to 1 would lose those digits).
    """
    k = math.sqrt((-c + a + b) * (c + a - b) * (c - a + b) * (c + a + b))
    y = k / (2.0 * c)  # half length of the common chord
    xa = ((c - b) * (c + b) + a * a) / (2.0 * c)  # distance of the chord from the centre of circle a (signed)
    xb = ((c - a) * (c + a) + b * b) / (2.0 * c)
    return a * a * math.atan2(y, xa) + b * b * math.atan2(y, xb) - c * y, y


def sun_visible_fraction(r_sat, r_sun, r_body=R_EARTH, r_sun_body=R_SUN):
    """Fraction of the solar disc not covered by the Earth's disc as seen from the satellite (two-circle overlap).

    Returns (fraction, a, b, c): apparent radii of Sun (a) and Earth (b) and the separation of the disc centres (c).
    """
    r_sat = np.asarray(r_sat, dtype=float)
    to_sun = np.asarray(r_sun, dtype=float) - r_sat
    d_sun = math.sqrt(float(to_sun @ to_sun))
    d_sat = math.sqrt(float(r_sat @ r_sat))
    a = math.asin(r_sun_body / d_sun)
    b = math.asin(r_body / d_sat)
    c = _angle(-r_sat, to_sun)
    if c >= a + b:
        return 1.0, a, b, c
    if c <= abs(b - a):
        # smaller disc wholly inside the larger one
        frac = 0.0 if b >= a else 1.0 - (b * b) / (a * a)
        return frac, a, b, c
    lens, _ = lens_area(a, b, c)
    return 1.0 - lens / (math.pi * a * a), a, b, c


def sun_fraction_conditioning(r_sat, r_sun):
    """Unit round-off sensitivity of the *textbook* lens formula (Montenbruck & Gill eq. 3.92-3.94) at this geometry.

    That formula takes b^2 arccos((c - x)/b) with an argument within (y/b)^2/2 of 1: one unit round-off u of the
    argument moves the angle by u b / y and the visible fraction by  u b^3 / (y pi a^2)  (2e-9 in mid penumbra at
    200 km altitude, growing towards the two edges of the penumbra where y -> 0).  Zero outside the penumbra.
    """
    frac, a, b, c = sun_visible_fraction(r_sat, r_sun)
    if frac in (0.0, 1.0) and not (abs(b - a) < c < a + b):
        return 0.0
    _, y = lens_area(a, b, c)
    return 2.220446049250313e-16 * b**3 / (y * math.pi * a * a)


def sun_visible_fraction_quadrature(a, b, c, n=20000):
    """Numerical area of {|p| <= a} minus {|p - (c,0)| <= b} by midpoint strips (self check of the lens formula)."""
    ys = (np.arange(n) + 0.5) / n * 2.0 * a - a
    half = np.sqrt(np.maximum(a * a - ys * ys, 0.0))  # sun chord: x in [-half, half]
    hb = np.sqrt(np.maximum(b * b - ys * ys, 0.0))  # earth chord: x in [c - hb, c + hb] where |y| < b
    lo = np.maximum(-half, c - hb)
    hi = np.minimum(half, c + hb)
    covered = np.where(np.abs(ys) < b, np.maximum(hi - lo, 0.0), 0.0)
    return 1.0 - float(np.sum(covered) * (2.0 * a / n)) / (math.pi * a * a)


def srp_accel(r_sat, r_sun, sat_ratio, au_km):
    """Cannonball SRP (km/s^2): -P (C_R A/m) (AU/d)^2 s_hat nu, P = flux / c in N/m^2, sat_ratio in m^2/kg."""
    r_sat = np.asarray(r_sat, dtype=float)
    to_sun = np.asarray(r_sun, dtype=float) - r_sat
    d = math.sqrt(float(to_sun @ to_sun))
    nu = sun_visible_fraction(r_sat, r_sun)[0]
    pressure = SOLAR_FLUX / C_LIGHT
    a_ms2 = -pressure * sat_ratio * (au_km / d) ** 2 * nu * (to_sun / d)
    return a_ms2 * 1.0e-3


def relativity_accel(r, v, mu=MU_EARTH):
    """Schwarzschild term, IERS Conventions (2010) eq. 10.12 with beta = gamma = 1 (km, km/s)."""
    r = np.asarray(r, dtype=float)
    v = np.asarray(v, dtype=float)
    c2 = (C_LIGHT * 1.0e-3) ** 2
    rn = math.sqrt(float(r @ r))
    return mu / (c2 * rn**3) * ((4.0 * mu / rn - float(v @ v)) * r + 4.0 * float(r @ v) * v)


# ---------------------------------------------------------------------------------------------- kernel segments
_SEG = {}


def _segments():
    """{(centre, target): (jd0, interval_days, coeff array (3, n_intervals, n_coeff))} from the file names."""
    if not _SEG:
        folder = data_path("de432s")
        for name in sorted(os.listdir(folder)):
            if not name.endswith(".npy"):
                continue
            stem = name[: -len(".npy")]
            centre, target, jd0, interval = stem.split("-")
            key = (int(centre), int(target))
            if key in _SEG:
                raise ValueError(f"two kernel files for {key}")
            _SEG[key] = (float(jd0), float(interval), np.load(os.path.join(folder, name)))
    return _SEG


def segment_info(centre, target):
    jd0, interval, coeff = _segments()[(centre, target)]
    return jd0, interval, coeff.shape[1], coeff.shape[2]


def segment_position(jd, centre, target):
    """Position (km) of `target` w.r.t. `centre`: sum_k c_k T_k(x), T_k(x) = cos(k arccos x)."""
    jd0, interval, coeff = _segments()[(centre, target)]
    elapsed = float(jd) - jd0
    idx = int(math.floor(elapsed / interval))
    if idx < 0 or idx >= coeff.shape[1]:
        raise ValueError("epoch outside kernel")
    x = 2.0 * (elapsed - idx * interval) / interval - 1.0
    theta = math.acos(min(1.0, max(-1.0, x)))
    t = np.cos(np.arange(coeff.shape[2]) * theta)
    return coeff[:, idx, :] @ t


def body_position(jd, body):
    """Geocentric J2000 position (km) of the body's centre (planets: system barycentre, as DE kernels give it)."""
    earth = segment_position(jd, 0, 3) + segment_position(jd, 3, 399)
    if body == "moon":
        return segment_position(jd, 3, 301) - segment_position(jd, 3, 399)
    if body == "sun":
        return segment_position(jd, 0, 10) - earth
    return segment_position(jd, 0, NAIF_BARYCENTRE[body]) - earth


def body_segments(body):
    if body == "moon":
        return [(3, 301), (3, 399)]
    if body == "sun":
        return [(0, 10), (0, 3), (3, 399)]
    return [(0, NAIF_BARYCENTRE[body]), (0, 3), (3, 399)]


def segment_edges(centre, target, jd_lo, jd_hi):
    jd0, interval, count, _ = segment_info(centre, target)
    k0 = int(math.ceil((jd_lo - jd0) / interval))
    k1 = int(math.floor((jd_hi - jd0) / interval))
    return [jd0 + k * interval for k in range(max(k0, 1), min(k1, count - 1) + 1)]


# ---------------------------------------------------------------------------------------------- analytic Sun / Moon
def _rot1(a):
    c, s = math.cos(a), math.sin(a)
    return np.array([[1, 0, 0], [0, c, s], [0, -s, c]], dtype=float)


def _rot2(a):
    c, s = math.cos(a), math.sin(a)
    return np.array([[c, 0, -s], [0, 1, 0], [s, 0, c]], dtype=float)


def _rot3(a):
    c, s = math.cos(a), math.sin(a)
    return np.array([[c, s, 0], [-s, c, 0], [0, 0, 1]], dtype=float)


def precession_mod_to_j2000(t_cent):
    """IAU 1976 precession, mean-of-date -> J2000 (Vallado eq. 3-88/3-89)."""
    arcsec = math.pi / 648000.0
    zeta = (2306.2181 * t_cent + 0.30188 * t_cent**2 + 0.017998 * t_cent**3) * arcsec
    theta = (2004.3109 * t_cent - 0.42665 * t_cent**2 - 0.041833 * t_cent**3) * arcsec
    z = (2306.2181 * t_cent + 1.09468 * t_cent**2 + 0.018203 * t_cent**3) * arcsec
    return _rot3(zeta) @ _rot2(-theta) @ _rot3(z)


def analytic_sun(jd):
    """Astronomical Almanac low-precision Sun (Vallado alg. 29), geocentric, rotated to J2000, km.  ~0.01 deg."""
    t = (float(jd) - 2451545.0) / 36525.0
    deg = math.pi / 180.0
    lam_m = 280.460 + 36000.771 * t
    m = (357.5291092 + 35999.05034 * t) * deg
    lam = (lam_m + 1.914666471 * math.sin(m) + 0.019994643 * math.sin(2 * m)) * deg
    r_au = 1.000140612 - 0.016708617 * math.cos(m) - 0.000139589 * math.cos(2 * m)
    eps = (23.439291 - 0.0130042 * t) * deg
    mod = r_au * AU_IAU * np.array([math.cos(lam), math.cos(eps) * math.sin(lam), math.sin(eps) * math.sin(lam)])
    return precession_mod_to_j2000(t) @ mod


def analytic_moon(jd):
    """Astronomical Almanac low-precision Moon (Vallado alg. 31), rotated to J2000, km.  ~0.3 deg, ~0.3 % range."""
    t = (float(jd) - 2451545.0) / 36525.0
    deg = math.pi / 180.0

    def s(a0, a1):
        return math.sin((a0 + a1 * t) * deg)

    def c(a0, a1):
        return math.cos((a0 + a1 * t) * deg)

    lam = (
        218.32 + 481267.8813 * t + 6.29 * s(134.9, 477198.85) - 1.27 * s(259.2, -413335.38) + 0.66 * s(235.7, 890534.23)
        + 0.21 * s(269.9, 954397.70) - 0.19 * s(357.5, 35999.05) - 0.11 * s(186.6, 966404.05)
    ) * deg
    phi = (
        5.13 * s(93.3, 483202.03) + 0.28 * s(228.2, 960400.87) - 0.28 * s(318.3, 6003.18) - 0.17 * s(217.6, -407332.20)
    ) * deg
    par = (
        0.9508 + 0.0518 * c(134.9, 477198.85) + 0.0095 * c(259.2, -413335.38) + 0.0078 * c(235.7, 890534.23)
        + 0.0028 * c(269.9, 954397.70)
    ) * deg
    eps = (23.439291 - 0.0130042 * t) * deg
    rng = 6378.1363 / math.sin(par)
    mod = rng * np.array(
        [
            math.cos(phi) * math.cos(lam),
            math.cos(eps) * math.cos(phi) * math.sin(lam) - math.sin(eps) * math.sin(phi),
            math.sin(eps) * math.cos(phi) * math.sin(lam) + math.cos(eps) * math.sin(phi),
        ]
    )
    return precession_mod_to_j2000(t) @ mod


def separation_deg(a, b):
    return _angle(a, b) * 180.0 / math.pi
