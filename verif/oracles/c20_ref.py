"""Independent two-body reference for C20 (Lambert / IOD).  No resonaate import, plain ``math``.

* ``elements_to_state``: classical elements -> Cartesian state through explicitly written perifocal unit vectors;
* ``kepler_E``: Kepler's equation E - e sin E = M by Newton from E = pi on the half period (monotone, see below);
* ``propagate``: (r, v) + dt -> (r, v) through the eccentricity-vector perifocal frame and eccentric anomaly
  (bound orbits only; that is all C20 quantifies over);
* ``arc``: the two end states of a Keplerian arc and its true transfer angle.

Accuracy: every step is a closed form evaluated in IEEE doubles; angles are O(10) rad, so positions carry
~1e-14 relative rounding (1e-9 km at 1e5 km).  Checked at development time on 1.6e4 arcs against
verif/oracles/kepler_ref.py (written independently for C03) and against the elements route: agreement better than
1e-7 km (asserted bound, not a measured envelope); the check itself asserts on every arc that the two own routes to the
end state (elements at nu1 vs ``propagate``) agree to 1e-8 of a / v_c before a solver is judged.
"""
from __future__ import annotations

import math

MU = 398600.4415  # km^3/s^2; the check asserts resonaate's Earth.mu equals this literal
TWOPI = 2.0 * math.pi


def _dot(a, b):
    return a[0] * b[0] + a[1] * b[1] + a[2] * b[2]


def _cross(a, b):
    return (a[1] * b[2] - a[2] * b[1], a[2] * b[0] - a[0] * b[2], a[0] * b[1] - a[1] * b[0])


def _norm(a):
    return math.sqrt(_dot(a, a))


def period(a, mu=MU):
    return TWOPI * math.sqrt(a * a * a / mu)


def perifocal_axes(inc, raan, argp):
    cO, sO = math.cos(raan), math.sin(raan)
    ci, si = math.cos(inc), math.sin(inc)
    cw, sw = math.cos(argp), math.sin(argp)
    P = (cO * cw - sO * sw * ci, sO * cw + cO * sw * ci, sw * si)
    Q = (-cO * sw - sO * cw * ci, -sO * sw + cO * cw * ci, cw * si)
    return P, Q


def elements_to_state(a, e, inc, raan, argp, nu, mu=MU):
    """(r, v) tuples (km, km/s) of classical elements, angles in radians."""
    p = a * (1.0 - e * e)
    r = p / (1.0 + e * math.cos(nu))
    k = math.sqrt(mu / p)
    P, Q = perifocal_axes(inc, raan, argp)
    x, y = r * math.cos(nu), r * math.sin(nu)
    xd, yd = -k * math.sin(nu), k * (e + math.cos(nu))
    return (tuple(x * P[i] + y * Q[i] for i in range(3)), tuple(xd * P[i] + yd * Q[i] for i in range(3)))


def kepler_E(M, e):
    """E with E - e sin E = M.  M is reduced to [-pi, pi] and solved for |M| by Newton started at E = pi:
    f(E) = E - e sin E - m is convex on [0, pi] with f(pi) >= 0, so the iterates decrease monotonically to the root."""
    M = math.remainder(M, TWOPI)
    sgn = -1.0 if M < 0 else 1.0
    m = abs(M)
    E = math.pi
    for _ in range(100):
        d = (E - e * math.sin(E) - m) / (1.0 - e * math.cos(E))
        E -= d
        if abs(d) < 1e-15:
            break
    return sgn * E


def nu_to_M(nu, e):
    E = 2.0 * math.atan2(math.sqrt(1.0 - e) * math.sin(0.5 * nu), math.sqrt(1.0 + e) * math.cos(0.5 * nu))
    return E - e * math.sin(E)


def M_to_nu(M, e):
    E = kepler_E(M, e)
    return 2.0 * math.atan2(math.sqrt(1.0 + e) * math.sin(0.5 * E), math.sqrt(1.0 - e) * math.cos(0.5 * E))


def propagate(r, v, dt, mu=MU):
    """Two-body motion of a *bound* state for dt seconds: returns (r, v) tuples."""
    r = tuple(float(x) for x in r)
    v = tuple(float(x) for x in v)
    rn = _norm(r)
    h = _cross(r, v)
    hn = _norm(h)
    vxh = _cross(v, h)
    ev = tuple(vxh[i] / mu - r[i] / rn for i in range(3))
    e = _norm(ev)
    inv_a = 2.0 / rn - _dot(v, v) / mu
    if inv_a <= 0.0:
        raise ValueError("reference propagator handles bound orbits only")
    a = 1.0 / inv_a
    W = tuple(x / hn for x in h)
    # perigee direction: the eccentricity vector with its (rounding-only) out-of-plane part removed.  Without this a
    # nearly circular orbit (e ~ 1e-10) would get a P tilted out of the plane by eps/e and lose 1e-6 of the radius.
    # An in-plane error of the direction is harmless (nu0 below is measured from the same P).
    out = _dot(ev, W)
    pin = tuple(ev[i] - out * W[i] for i in range(3))
    pn = _norm(pin)
    if pn < 1e-13:  # circular to rounding: measure the anomaly from the current position (error <= a * 1e-13)
        pin, pn = r, rn
    P = tuple(x / pn for x in pin)
    Q = _cross(W, P)
    nu0 = math.atan2(_dot(r, Q), _dot(r, P))
    n = math.sqrt(mu / (a * a * a))
    E = kepler_E(nu_to_M(nu0, e) + n * dt, e)
    q = math.sqrt(max(1.0 - e * e, 0.0))
    rr = a * (1.0 - e * math.cos(E))
    k = math.sqrt(mu * a) / rr
    x, y = a * (math.cos(E) - e), a * q * math.sin(E)
    xd, yd = -k * math.sin(E), k * q * math.cos(E)
    return (tuple(x * P[i] + y * Q[i] for i in range(3)), tuple(xd * P[i] + yd * Q[i] for i in range(3)))


def arc(a, e, inc, raan, argp, nu0, frac, mu=MU):
    """End states of the arc that starts at true anomaly nu0 and lasts ``frac`` of a period.

    Returns dict(r1, v1, r2, v2, tof, dnu) with dnu the true transfer angle in (0, 2 pi) for 0 < frac < 1.
    The end point is built from the elements (not by ``propagate``) so the two routes can be compared."""
    T = period(a, mu)
    tof = frac * T
    M0 = nu_to_M(nu0, e)
    nu1 = M_to_nu(M0 + TWOPI * frac, e)
    r1, v1 = elements_to_state(a, e, inc, raan, argp, nu0, mu)
    r2, v2 = elements_to_state(a, e, inc, raan, argp, nu1, mu)
    dnu = math.fmod(nu1 - nu0, TWOPI)
    if dnu < 0.0:
        dnu += TWOPI
    return {"r1": r1, "v1": v1, "r2": r2, "v2": v2, "tof": tof, "dnu": dnu, "period": T}


def stumpff(psi):
    """Stumpff functions c2(psi) = (1 - cos sqrt(psi))/psi, c3(psi) = (sqrt(psi) - sin sqrt(psi))/psi^1.5 (and their
    hyperbolic continuation): power series sum (-psi)^k/(2k+2)! and (-psi)^k/(2k+3)! for |psi| < 1 (no cancellation),
    closed forms elsewhere."""
    if abs(psi) < 1.0:
        c2 = c3 = 0.0
        t2, t3 = 0.5, 1.0 / 6.0
        k = 0
        while abs(t2) > 1e-22 or abs(t3) > 1e-22:
            c2 += t2
            c3 += t3
            k += 1
            t2 *= -psi / ((2 * k + 1) * (2 * k + 2))
            t3 *= -psi / ((2 * k + 2) * (2 * k + 3))
        return c2, c3
    if psi > 0.0:
        s = math.sqrt(psi)
        return (1.0 - math.cos(s)) / psi, (s - math.sin(s)) / (s * psi)
    s = math.sqrt(-psi)
    return (math.cosh(s) - 1.0) / (-psi), (math.sinh(s) - s) / (s * -psi)
