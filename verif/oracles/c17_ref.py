"""Independent reference model for C17 (maneuver detectors over innovation histories).

Nothing here imports resonaate.  Deliberately boring:

* the normalised innovation squared is computed by a Cholesky factorisation and one forward substitution written out in
  plain Python floats (the code under test forms an explicit LAPACK inverse);
* the detector keeps the *whole* history in plain lists and recomputes its statistic from that history at every step
  (explicit window slice / explicit sum of delta**age * nis) - no running sums, no deque;
* the upper-tail chi-square bound is ``2 * gammainccinv(dof/2, alpha)`` (regularised upper incomplete gamma inverse) and
  every bound is validated *forward* with ``gammaincc`` when it is first computed, so a broken inverse would be noticed
  by the reference itself.

Input builders: covariance kinds I / S / C (every pairwise correlation 0.9..0.99) / M (two C blocks, uncorrelated with
each other) / W (every pairwise correlation 1e-6), and ``in_units`` = the same covariance expressed in other units
(D S D): the quadratic form has no unit, so every detector must behave identically in every unit.
"""
from __future__ import annotations

import math

from scipy.special import gammaincc, gammainccinv

STANDARD, SLIDING, FADING = "standard", "sliding", "fading"


# ------------------------------------------------------------------------------------------------ linear algebra
def cholesky_lower(mat):
    """Lower Cholesky factor of a symmetric positive definite matrix given as list of lists."""
    n = len(mat)
    low = [[0.0] * n for _ in range(n)]
    for i in range(n):
        for j in range(i + 1):
            acc = mat[i][j] - math.fsum(low[i][k] * low[j][k] for k in range(j))
            if i == j:
                if acc <= 0.0:
                    raise ValueError("matrix not positive definite")
                low[i][j] = math.sqrt(acc)
            else:
                low[i][j] = acc / low[j][j]
    return low


def quad_form_chol(vec, low):
    """v^T S^-1 v = |L^-1 v|^2 with S = L L^T."""
    n = len(vec)
    y = [0.0] * n
    for i in range(n):
        y[i] = (vec[i] - math.fsum(low[i][k] * y[k] for k in range(i))) / low[i][i]
    return math.fsum(t * t for t in y)


def quad_form(vec, mat):
    return quad_form_chol([float(x) for x in vec], cholesky_lower([[float(x) for x in row] for row in mat]))


# ------------------------------------------------------------------------------------------------ chi-square bound
_BOUND_CACHE: dict = {}


def upper_tail_bound(alpha: float, dof: float) -> float:
    """x with P[chi2_dof >= x] = alpha."""
    key = (alpha, dof)
    hit = _BOUND_CACHE.get(key)
    if hit is None:
        hit = 2.0 * float(gammainccinv(0.5 * dof, alpha))
        back = float(gammaincc(0.5 * dof, 0.5 * hit))
        # forward validation of the inverse; the inverse is accurate to a few ulp in x, i.e. |dQ| <= pdf * x * 1e-15;
        # 1e-9 relative in alpha is far above that and far below anything that could move a decision (eps = 1e-6 in x)
        if not abs(back - alpha) <= 1e-9 * alpha:
            raise ArithmeticError(f"reference chi-square inverse inconsistent: alpha={alpha} dof={dof} x={hit} Q={back}")
        _BOUND_CACHE[key] = hit
    return hit


# ------------------------------------------------------------------------------------------------ detectors
class RefDetector:
    """Documented statistic of each detector, recomputed from the full history at every step."""

    __slots__ = ("kind", "alpha", "w", "delta", "nis", "dims")

    def __init__(self, kind, alpha, w=None, delta=None, nis=None, dims=None):
        self.kind = kind
        self.alpha = alpha
        self.w = w
        self.delta = delta
        self.nis = list(nis or [])
        self.dims = list(dims or [])

    def copy(self):
        return RefDetector(self.kind, self.alpha, self.w, self.delta, self.nis, self.dims)

    # what the statistic / degrees of freedom are after appending (nis, dim)
    def dof_after(self, dim):
        if self.kind == STANDARD:
            return dim
        dims = self.dims + [dim]
        if self.kind == SLIDING:
            return sum(dims[max(0, len(dims) - self.w):])
        mean = sum(dims) / len(dims)
        return mean * (1.0 + self.delta) / (1.0 - self.delta)

    def _faded_sum(self, nis_list):
        k = len(nis_list)
        return math.fsum((self.delta ** (k - 1 - j)) * nis_list[j] for j in range(k))

    def metric_after(self, nis):
        if self.kind == STANDARD:
            return nis
        hist = self.nis + [nis]
        if self.kind == SLIDING:
            return math.fsum(hist[max(0, len(hist) - self.w):])
        return (1.0 + self.delta) * self._faded_sum(hist)

    def needed_nis(self, target_metric):
        """NIS of the next step that would put the statistic at ``target_metric`` (may be negative)."""
        if self.kind == STANDARD:
            return target_metric
        if self.kind == SLIDING:
            keep = self.w - 1
            prev = self.nis[max(0, len(self.nis) - keep):] if keep > 0 else []
            return target_metric - math.fsum(prev)
        return target_metric / (1.0 + self.delta) - self.delta * self._faded_sum(self.nis)

    def bound_after(self, dim):
        return upper_tail_bound(self.alpha, self.dof_after(dim))

    def step(self, nis, dim):
        """Append one step; returns (metric, dof, bound)."""
        metric = self.metric_after(nis)
        dof = self.dof_after(dim)
        self.nis.append(nis)
        self.dims.append(dim)
        return metric, dof, upper_tail_bound(self.alpha, dof)

    def key(self):
        return (tuple(self.nis), tuple(self.dims))


# ------------------------------------------------------------------------------------------------ input builders
def spd_matrix(dim, phase):
    """Full symmetric positive definite matrix D (B B^T + dim/2 I) D, condition number < 1e3 (checked)."""
    b = [[math.sin(1.3 * i + 2.1 * j + 0.7 + phase) for j in range(dim)] for i in range(dim)]
    m = [[math.fsum(b[i][k] * b[j][k] for k in range(dim)) + (0.5 * dim if i == j else 0.0) for j in range(dim)] for i in range(dim)]
    d = [0.5 * 4.0 ** (i / max(1, dim - 1)) for i in range(dim)]  # 0.5 .. 2
    s = [[d[i] * m[i][j] * d[j] for j in range(dim)] for i in range(dim)]
    # symmetrise exactly
    for i in range(dim):
        for j in range(i):
            s[i][j] = s[j][i]
    return s


def identity(dim):
    return [[1.0 if i == j else 0.0 for j in range(dim)] for i in range(dim)]


def corr_coefficient(dim):
    """Magnitude of every pairwise correlation of ``corr_matrix(dim, .)`` (0.9 or more)."""
    return {1: 0.0, 2: 0.99, 3: 0.97, 4: 0.95}.get(dim, 0.9)


WEAK_RHO = 1e-6  # kind W: real but weak correlation; dropping it changes the quadratic form by ~1e-6 (relative)


def corr_matrix(dim, phase, rho=None):
    """Strongly correlated covariance: S_ij = sig_i sig_j rho e_i e_j (i != j), e_i = +-1, rho = corr_coefficient(dim).

    Equicorrelation up to a sign similarity: eigenvalues of the correlation matrix are 1 + (n-1) rho and 1 - rho, so
    its condition number is < 200; the standard deviations spread by < 1.7, total condition number < 1e3 (checked by
    the caller).  For dim 1 this is a plain non-unit variance."""
    sig = [0.8 * 1.5 ** (i / max(1, dim - 1)) * (1.0 + 0.05 * math.sin(phase + 1.7 * i)) for i in range(dim)]
    sgn = [-1.0 if i % 3 == 1 else 1.0 for i in range(dim)]
    rho = corr_coefficient(dim) if rho is None else rho
    return [[sig[i] * sig[j] * (1.0 if i == j else rho * sgn[i] * sgn[j]) for j in range(dim)] for i in range(dim)]


def block_split(dim):
    """Size of the first ('angle-like') block of a mixed-unit covariance of dimension dim."""
    return (dim + 1) // 2


def block_matrix(dim, phase):
    """Block diagonal covariance: two strongly correlated blocks (sizes block_split(dim), dim - block_split(dim)) that
    are uncorrelated with each other - e.g. (azimuth, elevation) and (range, range rate) of one radar observation."""
    k = block_split(dim)
    a = corr_matrix(k, phase)
    b = corr_matrix(dim - k, phase + 1.0) if dim > k else []
    out = [[0.0] * dim for _ in range(dim)]
    for i in range(k):
        for j in range(k):
            out[i][j] = a[i][j]
    for i in range(dim - k):
        for j in range(dim - k):
            out[k + i][k + j] = b[i][j]
    return out


def base_covariance(kind, dim, phase):
    """The unit-scale covariance of kind I (identity), S (full SPD), C (strongly correlated), M (two such blocks),
    W (weakly correlated: every pairwise correlation +-1e-6)."""
    if kind == "I":
        return identity(dim)
    if kind == "S":
        return spd_matrix(dim, phase)
    if kind == "C":
        return corr_matrix(dim, phase)
    if kind == "M":
        return block_matrix(dim, phase)
    if kind == "W":
        return corr_matrix(dim, phase, WEAK_RHO)
    raise ValueError(kind)


def component_units(kind, dim, unit):
    """Unit of every component: all components in ``unit``, except kind M = first block in ``unit``, second in 1."""
    if kind == "M":
        k = block_split(dim)
        return [unit] * k + [1.0] * (dim - k)
    return [unit] * dim


def in_units(base, units):
    """D base D for D = diag(units): the same covariance expressed in other units (exactly symmetric)."""
    n = len(base)
    return [[base[i][j] * (units[i] * units[j]) for j in range(n)] for i in range(n)]


def direction(dim, phase):
    """Unit vector with no zero component."""
    u = [math.cos(0.9 * i + 0.4 + phase) + (0.3 if i % 2 else -0.3) for i in range(dim)]
    nrm = math.sqrt(math.fsum(t * t for t in u))
    return [t / nrm for t in u]
