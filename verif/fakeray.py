"""In-process stand-in for ``ray`` that puts job completion order under the explorer's control.

Installed as ``sys.modules['ray']`` *before* resonaate is imported (``install()``).  Semantics kept from Ray:

* arguments of a remote call, ``put`` payloads and results cross a pickle round trip (a worker can never mutate
  driver objects; the driver never sees worker-side mutation of the submission);
* ``wait(refs)`` returns exactly one finished ref; *which one* is decided by ``SCHED`` (default: first);
* a job body runs with the global numpy RNG seeded from (function name, submission ordinal of that function since
  reset()), mirroring separate worker processes whose noise draws do not depend on which sibling job *finished* first
  (the submission order is fixed by the driver loop); the driver's RNG state is restored after;
* named actors (``_KVSActor``) live in a table that ``reset()`` clears.

Object refs are content-addressed when pickled (so two replays of the same schedule produce byte-identical
submissions and memoisation by submission bytes is possible) but compare by unique identity in the driver, exactly
like real ``ObjectRef`` objects (two identical submissions are still two jobs).
"""
from __future__ import annotations

import hashlib
import itertools
import pickle
import sys
import types

import numpy as np

_uid = itertools.count()
_STORE: dict[str, bytes] = {}  # content key -> pickled value
_PENDING: dict[int, tuple] = {}  # uid -> (func, arg bytes, content key)
_SUBMIT_COUNT: dict[str, int] = {}  # function name -> number of submissions since reset()
_ACTORS: dict[str, object] = {}
_initialized = False

MEMO: dict[str, bytes] = {}  # job content key -> pickled result (only used when MEMO_ENABLED)
MEMO_ENABLED = False
STATS = {"jobs_run": 0, "memo_hits": 0, "waits": 0, "puts": 0}
JOB_LOG: list | None = None  # when a list: (func name, arg bytes) of every submitted job is appended
DELIVERY_HOOK = None  # callable(func name, result object): called when wait() hands a finished job to the driver
_JOBNAME: dict[str, str] = {}


class Scheduler:
    """Decides which pending job of a ``wait`` finishes next. ``choices`` is consumed front to back; beyond its end
    the default (index 0 = submission order) is taken. Every decision point is recorded in ``trace``."""

    def __init__(self, choices=None):
        self.choices = list(choices or [])
        self.pos = 0
        self.trace: list[tuple[int, int]] = []  # (number enabled, index chosen)

    def choose(self, n: int) -> int:
        if n == 1:
            return 0
        c = self.choices[self.pos] if self.pos < len(self.choices) else 0
        self.pos += 1
        if not 0 <= c < n:
            raise RuntimeError(f"schedule choice {c} out of range for {n} enabled jobs (replay diverged)")
        self.trace.append((n, c))
        return c


SCHED = Scheduler()


def set_schedule(choices=None):
    global SCHED  # noqa: PLW0603
    SCHED = Scheduler(choices)
    return SCHED


def _resolve_ref(key: str):
    return ObjectRef(key)


class ObjectRef:
    __slots__ = ("key", "uid")

    def __init__(self, key: str):
        self.key = key
        self.uid = next(_uid)

    def __reduce__(self):
        return (_resolve_ref, (self.key,))

    def __hash__(self):
        return hash(self.uid)

    def __eq__(self, other):
        return isinstance(other, ObjectRef) and other.uid == self.uid

    def __repr__(self):
        return f"FakeObjectRef({self.key[:10]}#{self.uid})"

    def hex(self):
        return self.key


def _key(*parts: bytes) -> str:
    h = hashlib.sha256()
    for p in parts:
        h.update(p)
        h.update(b"|")
    return h.hexdigest()


def _run_job(uid: int):
    func, arg_bytes, key, seed = _PENDING.pop(uid)
    if key in _STORE:
        return
    if MEMO_ENABLED and key in MEMO:
        STATS["memo_hits"] += 1
        _STORE[key] = MEMO[key]
        return
    args, kwargs = pickle.loads(arg_bytes)
    saved = np.random.get_state()
    np.random.seed(seed)
    try:
        result = func(*args, **kwargs)
    finally:
        np.random.set_state(saved)
    STATS["jobs_run"] += 1
    out = pickle.dumps(result, protocol=4)
    _STORE[key] = out
    if MEMO_ENABLED:
        MEMO[key] = out


class RemoteFunction:
    def __init__(self, func):
        self._func = func
        self.__name__ = getattr(func, "__name__", "remote")
        self.__doc__ = func.__doc__

    def remote(self, *args, **kwargs):
        arg_bytes = pickle.dumps((args, kwargs), protocol=4)
        name = f"{self._func.__module__}.{self._func.__qualname__}"
        seq = _SUBMIT_COUNT.get(name, 0)
        _SUBMIT_COUNT[name] = seq + 1
        key = _key(name.encode(), str(seq).encode(), arg_bytes)
        ref = ObjectRef(key)
        seed = int(_key(name.encode(), str(seq).encode())[:8], 16)
        _PENDING[ref.uid] = (self._func, arg_bytes, key, seed)
        _JOBNAME[key] = name
        if JOB_LOG is not None:
            JOB_LOG.append((name, arg_bytes))
        return ref

    def options(self, **_kw):
        return self

    def __call__(self, *a, **k):
        raise TypeError("Remote functions cannot be called directly; use .remote()")


class _ActorMethod:
    def __init__(self, bound):
        self._bound = bound

    def remote(self, *args, **kwargs):
        args, kwargs = pickle.loads(pickle.dumps((args, kwargs), protocol=4))
        result = self._bound(*args, **kwargs)
        out = pickle.dumps(result, protocol=4)
        key = _key(b"actor", str(next(_uid)).encode())
        _STORE[key] = out
        return ObjectRef(key)


class _ActorHandle:
    def __init__(self, instance):
        self._instance = instance

    def __getattr__(self, name):
        return _ActorMethod(getattr(self._instance, name))


class _ActorClass:
    def __init__(self, cls, name=None, get_if_exists=False):
        self._cls = cls
        self._name = name
        self._get_if_exists = get_if_exists

    def options(self, name=None, get_if_exists=False, **_kw):
        return _ActorClass(self._cls, name=name, get_if_exists=get_if_exists)

    def remote(self, *args, **kwargs):
        if self._name is not None and self._name in _ACTORS:
            if self._get_if_exists:
                return _ACTORS[self._name]
            raise ValueError(f"actor {self._name} exists")
        handle = _ActorHandle(self._cls(*args, **kwargs))
        if self._name is not None:
            _ACTORS[self._name] = handle
        return handle


def remote(*args, **kwargs):
    if len(args) == 1 and not kwargs and (callable(args[0])):
        target = args[0]
        if isinstance(target, type):
            return _ActorClass(target)
        return RemoteFunction(target)

    def deco(target):
        return remote(target)

    return deco


def put(obj):
    data = pickle.dumps(obj, protocol=4)
    key = _key(b"put", data)
    _STORE[key] = data
    STATS["puts"] += 1
    return ObjectRef(key)


def _get_one(ref):
    if not isinstance(ref, ObjectRef):
        raise TypeError(f"ray.get of non-ref {type(ref)}")
    if ref.key not in _STORE:
        # a job ref that has not been waited on: run it now (ray.get blocks until done)
        for uid, (_f, _a, key, _s) in list(_PENDING.items()):
            if key == ref.key:
                _run_job(uid)
                break
        else:
            raise KeyError(f"unknown object {ref!r}")
    return pickle.loads(_STORE[ref.key])


def get(refs, timeout=None):  # noqa: ARG001
    if isinstance(refs, (list, tuple)):
        return [_get_one(r) for r in refs]
    return _get_one(refs)


def wait(refs, num_returns=1, timeout=None, fetch_local=True):  # noqa: ARG001
    refs = list(refs)
    if num_returns != 1:
        raise NotImplementedError("fake ray models num_returns=1 only (what resonaate uses)")
    STATS["waits"] += 1
    idx = SCHED.choose(len(refs))
    chosen = refs[idx]
    if chosen.uid in _PENDING:
        _run_job(chosen.uid)
    if DELIVERY_HOOK is not None:
        DELIVERY_HOOK(_JOBNAME.get(chosen.key, "?"), pickle.loads(_STORE[chosen.key]))
    rest = refs[:idx] + refs[idx + 1 :]
    return [chosen], rest


def init(*_a, **_k):
    global _initialized  # noqa: PLW0603
    _initialized = True
    return {}


def is_initialized():
    return _initialized


def shutdown():
    global _initialized  # noqa: PLW0603
    _initialized = False


def timeline(*_a, **_k):
    return []


def reset(keep_memo=True):
    """Forget all objects, pending jobs and actors (a fresh 'cluster')."""
    _STORE.clear()
    _PENDING.clear()
    _JOBNAME.clear()
    _SUBMIT_COUNT.clear()
    _ACTORS.clear()
    if not keep_memo:
        MEMO.clear()
    set_schedule(None)
    for k in STATS:
        STATS[k] = 0


class _Exceptions(types.ModuleType):
    class RayError(Exception):
        pass

    class GetTimeoutError(RayError):
        pass


def install():
    """Make ``import ray`` resolve to this module. Must run before resonaate is imported."""
    if "resonaate" in sys.modules and sys.modules.get("ray") is not sys.modules[__name__]:
        raise RuntimeError("fakeray.install() must be called before resonaate is imported")
    mod = sys.modules[__name__]
    sys.modules["ray"] = mod
    exc = _Exceptions("ray.exceptions")
    sys.modules["ray.exceptions"] = exc
    mod.exceptions = exc
    return mod
