"""Scenario factory: builds real ``resonaate`` scenarios in-process over the fake-ray seam.

Import this module *before* anything imports resonaate.
"""
from __future__ import annotations

import logging
from copy import deepcopy
from datetime import datetime, timedelta

from . import fakeray

fakeray.install()

_lg = logging.getLogger("resonaate")
if not _lg.handlers:
    _lg.addHandler(logging.NullHandler())
_lg.setLevel(100)
_lg.propagate = False

import numpy as np  # noqa: E402
from resonaate.data import db_connection  # noqa: E402
from resonaate.parallel.key_value_store import KeyValueStore  # noqa: E402
from resonaate.scenario import buildScenarioFromConfigDict  # noqa: E402


def fresh(keep_memo=True):
    """Start from a fresh 'cluster': no actors/objects, no KVS clients, no cached DB interfaces."""
    cached = db_connection._GetDBConnection._GetDBConnection__cached_interfaces  # noqa: SLF001
    for db in list(cached.values()):
        try:
            db.engine.dispose()
        except Exception:  # noqa: BLE001, S110
            pass
    cached.clear()
    KeyValueStore._client_map.clear()  # noqa: SLF001
    fakeray.reset(keep_memo=keep_memo)
    fakeray.init()
    np.random.seed(12345)


def build(config: dict, db_path: str | None = None, importer_db_path: str | None = None):
    """Fresh cluster + real builder. ``db_path`` None -> in-memory sqlite (``sqlite://``)."""
    fresh()
    if db_path is None:
        # buildScenarioFromConfigDict would create a timestamped file; use in-memory DB through setDBPath directly
        from resonaate.data import setDBPath  # noqa: PLC0415
        from resonaate.scenario.config import ScenarioConfig  # noqa: PLC0415
        from resonaate.scenario.scenario import Scenario  # noqa: PLC0415
        from resonaate.scenario.scenario_builder import ScenarioBuilder  # noqa: PLC0415

        setDBPath("sqlite://")
        cfg = ScenarioConfig(**deepcopy(config))
        builder = ScenarioBuilder(cfg, importer_db_path=importer_db_path)
        return Scenario(
            builder.config,
            builder.clock,
            builder.target_agents,
            builder.estimate_agents,
            builder.sensor_agents,
            builder.tasking_engines,
            importer_db_path=importer_db_path,
            logger=builder.logger,
        )
    return buildScenarioFromConfigDict(deepcopy(config), internal_db_path=db_path, importer_db_path=importer_db_path)


# ----------------------------------------------------------------------------- config helpers
RADAR_COV = [
    [2.388200571127796e-11, 0.0, 0.0, 0.0],
    [0.0, 3.7315633923871796e-11, 0.0, 0.0],
    [0.0, 0.0, 9.000000000000001e-8, 0.0],
    [0.0, 0.0, 0.0, 3.6100000000000005e-10],
]
OPT_COV = [[2.388200571127795e-11, 0.0], [0.0, 2.388200571127795e-11]]


def iso(dt: datetime) -> str:
    return dt.strftime("%Y-%m-%dT%H:%M:%S.%f")[:-3] + "Z"


def target_eci(tid: int, pos, vel, name=None, station_keeping=None):
    platform = {"type": "spacecraft"}
    if station_keeping is not None:
        platform["station_keeping"] = {"routines": list(station_keeping)}
    return {
        "name": name or f"T{tid}",
        "id": tid,
        "platform": platform,
        "state": {"type": "eci", "position": [float(x) for x in pos], "velocity": [float(x) for x in vel]},
    }


def ground_sensor(sid: int, lat, lon, alt=0.1, kind="adv_radar", name=None, fov=None, **overrides):
    sensor = {
        "slew_rate": 3.0,
        "azimuth_range": [0.0, 359.9999],
        "elevation_range": [1.0, 89.999],
        "efficiency": 0.9,
        "aperture_diameter": 27.0,
        "type": kind,
        "field_of_view": fov or {"fov_shape": "conic", "cone_angle": 10.0},
    }
    if kind in ("radar", "adv_radar"):
        sensor.update(
            covariance=RADAR_COV, tx_power=2.5e6, tx_frequency=1.5e9, min_detectable_power=1.4314085925969573e-14
        )
    else:
        sensor.update(covariance=OPT_COV, aperture_diameter=1.0, efficiency=0.98)
    sensor.update(overrides)
    return {
        "name": name or f"S{sid}",
        "id": sid,
        "platform": {"type": "ground_facility"},
        "state": {"type": "lla", "latitude": float(lat), "longitude": float(lon), "altitude": float(alt)},
        "sensor": sensor,
    }


def space_sensor(sid: int, pos, vel, kind="optical", name=None, fov=None, **overrides):
    cfg = ground_sensor(sid, 0, 0, kind=kind, name=name, fov=fov, **overrides)
    cfg["platform"] = {"type": "spacecraft"}
    cfg["state"] = {"type": "eci", "position": [float(x) for x in pos], "velocity": [float(x) for x in vel]}
    cfg["sensor"]["azimuth_range"] = [0.0, 359.9999]
    cfg["sensor"]["elevation_range"] = [-89.999, 89.999]
    return cfg


def engine(eid, targets, sensors, decision="MunkresDecision", reward="SimpleSummationReward", metrics=None, dparams=None):
    return {
        "unique_id": eid,
        "reward": {
            "name": reward,
            "metrics": metrics or [{"name": "TimeSinceObservation", "parameters": {}}],
            "parameters": {},
        },
        "decision": {"name": decision, **(dparams or {})},
        "targets": targets,
        "sensors": sensors,
    }


def config(
    start: datetime,
    n_steps: int,
    engines: list,
    *,
    physics=60,
    output=None,
    truth_only=False,
    model="two_body",
    filter_model=None,
    integrator="RK45",
    events=None,
    seed=1,
    station_keeping=False,
    geopotential=None,
    perturbations=None,
    estimation=None,
    filter_params=None,
    observation=None,
    propagation=None,
    stop: datetime | None = None,
):
    prop = {
        "propagation_model": model,
        "integration_method": integrator,
        "station_keeping": station_keeping,
        "target_realtime_propagation": True,
        "sensor_realtime_propagation": True,
        "truth_simulation_only": truth_only,
    }
    prop.update(propagation or {})
    est = estimation or {
        "sequential_filter": {
            "name": "unscented_kalman_filter",
            "alpha": 0.05,
            "beta": 2.0,
            "dynamics_model": filter_model or model,
            "maneuver_detection": None,
            **(filter_params or {}),
        },
        "adaptive_filter": None,
    }
    cfg = {
        "time": {
            "start_timestamp": iso(start),
            "physics_step_sec": physics,
            "output_step_sec": output or physics,
            "stop_timestamp": iso(stop or (start + timedelta(seconds=n_steps * physics))),
        },
        "noise": {
            "init_position_std_km": 1e-3,
            "init_velocity_std_km_p_sec": 1e-6,
            "filter_noise_type": "continuous_white_noise",
            "filter_noise_magnitude": 3.0e-14,
            "random_seed": seed,
        },
        "propagation": prop,
        "geopotential": geopotential or {"model": "egm96.txt", "degree": 2, "order": 0},
        "perturbations": perturbations
        or {"third_bodies": [], "solar_radiation_pressure": False, "general_relativity": False},
        "estimation": est,
        "engines": engines,
        "events": events or [],
    }
    if observation:
        cfg["observation"] = observation
    return cfg


# A few well-separated bound orbits (ECI km, km/s) used by scenario-level checks
LEO_A = ([7000.0, 0.0, 0.0], [0.0, 5.34, 5.34])
LEO_B = ([0.0, 7200.0, 0.0], [-7.0, 0.0, 2.5])
MEO_A = ([26560.0, 0.0, 0.0], [0.0, 2.74, 2.74])
GEO_A = ([42164.0, 0.0, 0.0], [0.0, 3.0746, 0.0])
GEO_B = ([0.0, 42164.0, 0.0], [-3.0746, 0.0, 0.0])


def step_times(start: datetime, physics: int, n: int):
    return [start + timedelta(seconds=physics * k) for k in range(n + 1)]


def overhead_orbit(when: datetime, lat_deg: float, lon_deg: float, alt_km: float, heading_deg: float = 90.0):
    """ECI state (pos, vel) of a circular orbit that is over geodetic (lat, lon) at altitude alt at UTC ``when``.

    ``heading_deg`` is the direction of travel measured from local north towards east (90 = due east).
    Harness-side geometry only (places targets where sensors can see them); uses the library's lla2eci.
    """
    from resonaate.physics.bodies import Earth  # noqa: PLC0415
    from resonaate.physics.transforms.methods import lla2eci  # noqa: PLC0415

    fresh_needed = not fakeray._ACTORS  # noqa: SLF001  (lla2eci may use the KVS-backed reduction cache)
    if fresh_needed:
        fakeray.init()
    lla = np.array([np.radians(lat_deg), np.radians(lon_deg), alt_km])
    r = np.asarray(lla2eci(lla, when), dtype=float)[:3]
    rhat = r / np.linalg.norm(r)
    z = np.array([0.0, 0.0, 1.0])
    east = np.cross(z, rhat)
    east /= np.linalg.norm(east)
    north = np.cross(rhat, east)
    h = np.radians(heading_deg)
    vdir = np.cos(h) * north + np.sin(h) * east
    v = np.sqrt(Earth.mu / np.linalg.norm(r)) * vdir
    return [float(x) for x in r], [float(x) for x in v]
