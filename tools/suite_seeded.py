#!/venv/bin/python
"""Run the pinned test suite against stored seeded changes whose meta.json has no suite result yet.

usage: suite_seeded.py [-n N] [<id> ...]     (default: every /verif/seeded/<id> without ran.suite_exit)
Per change: scratch worktree of /repo HEAD, `git apply patch.diff`, tools/baseline.py --repo <worktree> (the pinned pytest
command; every stable_pass test of /root/.vp/BASELINE.json must pass), result written into meta.json, worktree removed.
"""
import glob, json, os, subprocess, sys, time


def sh(cmd):
    return subprocess.run(cmd, shell=True, stdout=subprocess.PIPE, stderr=subprocess.STDOUT, text=True)


def main():
    a = sys.argv[1:]
    n = 8
    if a[:1] == ["-n"]:
        n = int(a[1]); a = a[2:]
    ids = a or [os.path.basename(os.path.dirname(f)) for f in sorted(glob.glob("/verif/seeded/*/meta.json"))
                if "suite_exit" not in json.load(open(f)).get("ran", {})]
    for sid in ids:
        d = f"/verif/seeded/{sid}"
        meta = json.load(open(f"{d}/meta.json"))
        wt = f"/tmp/wt_suite_{sid}"
        sh(f"git -C /repo worktree remove --force {wt}")
        r = sh(f"git -C /repo worktree add --detach {wt}")
        assert r.returncode == 0, r.stdout
        try:
            assert sh(f"git -C {wt} apply {d}/patch.diff").returncode == 0, "patch does not apply"
            t0 = time.time()
            b = sh(f"/verif/tools/baseline.py --repo {wt} -n {n}")
            meta["ran"]["suite_cmd"] = f"tools/baseline.py --repo <worktree with patch> -n {n} (pinned pytest command + xdist)"
            meta["ran"]["suite_exit"] = b.returncode
            meta["ran"]["suite_tail"] = b.stdout.strip().splitlines()[-3:]
            meta["ran"]["suite_wall_s"] = round(time.time() - t0)
        finally:
            sh(f"git -C /repo worktree remove --force {wt}")
        json.dump(meta, open(f"{d}/meta.json", "w"), indent=1)
        print(sid, "suite_exit", meta["ran"]["suite_exit"], meta["ran"]["suite_tail"][-1][:150], f"{meta['ran']['suite_wall_s']}s", flush=True)


main()
