#!/venv/bin/python
"""Print the markdown table of confirmed seeded changes from /verif/seeded/*/meta.json."""
import glob, json, os
rows = []
for f in sorted(glob.glob(os.path.join(os.path.dirname(__file__), "..", "seeded", "*", "meta.json"))):
    m = json.load(open(f))
    r = m["ran"]
    ok = r.get("demo_without_change_exit") == 0 and r.get("demo_with_change_exit") not in (0, None)
    suite = "pass" if r.get("suite_exit") == 0 else ("not run" if "suite_exit" not in r else "FAIL")
    sigs = r.get("check_violation_signatures", [])
    sig = "; ".join(s[:70] for s in sigs[:2]) + (" …" if len(sigs) > 2 else "")
    note = m.get("strengthened", "")
    rows.append(f"| {m['id']} | {m['property']} | {m['needs_to_manifest'][:150]} | {'yes' if ok else 'NO'} | {suite} | "
                f"{'**caught**' if m.get('caught_by') else '**missed**'} `{sig}` | {note} |")
print("| id | property | needs, in order to manifest | demo fails with / passes without | pinned suite with change | quick check | check strengthened because of it |")
print("|---|---|---|---|---|---|---|")
print("\n".join(rows))
