#!/venv/bin/python
"""Re-run the quick check of every stored seeded change against a scratch worktree carrying that change.

usage: regress_seeded.py [--only Cxx[,Cyy]] [--jobs N] [--out FILE]
For every /verif/seeded/<id>/: scratch worktree of /repo HEAD under /tmp, `git apply patch.diff`,
`VERIF_REPO=<worktree> ./check <property> --tier quick`, worktree removed.  Prints one line per change
(caught / MISSED / harness error / patch does not apply) and a summary; exit 1 if any change is not reported as a
VIOLATION.  Writes nothing under /verif except --out.  N changes are processed concurrently (each check itself
uses 16 worker processes, so N=2 keeps the machine busy without starving the checks).
"""
import concurrent.futures as cf
import glob, json, os, shutil, subprocess, sys, time

HERE = os.path.dirname(os.path.dirname(os.path.abspath(__file__)))


def sh(cmd):
    return subprocess.run(cmd, shell=True, stdout=subprocess.PIPE, stderr=subprocess.STDOUT, text=True)


def one(d):
    m = json.load(open(f"{d}/meta.json"))
    sid, prop = m["id"], m["property"]
    wt = f"/tmp/wt_regress_{sid}"
    sh(f"git -C /repo worktree remove --force {wt}")
    r = sh(f"git -C /repo worktree add --detach {wt}")
    t0 = time.time()
    try:
        if r.returncode:
            return sid, prop, "worktree_failed", [], 0
        a = sh(f"git -C {wt} apply {d}/patch.diff")
        if a.returncode:
            return sid, prop, "patch_does_not_apply", [], 0
        c = sh(f"cd {HERE} && VERIF_REPO={wt} ./check {prop} --tier quick")
        sigs = sorted({l.split("signature=")[1].split(" ")[0] for l in c.stdout.splitlines() if "violation signature" in l})
        status = {0: "MISSED", 1: "caught"}.get(c.returncode, f"harness_exit_{c.returncode}")
        return sid, prop, status, sigs[:4], round(time.time() - t0)
    finally:
        sh(f"git -C /repo worktree remove --force {wt}")
        shutil.rmtree(f"/tmp/verif_dev/{os.path.basename(wt)}", ignore_errors=True)


def main():
    only = None
    jobs, out = 2, None
    a = sys.argv[1:]
    while a:
        k = a.pop(0)
        if k == "--only":
            only = set(a.pop(0).split(","))
        elif k == "--jobs":
            jobs = int(a.pop(0))
        elif k == "--out":
            out = a.pop(0)
    dirs = sorted(glob.glob("/verif/seeded/*/"))
    dirs = [d.rstrip("/") for d in dirs if os.path.exists(f"{d}/meta.json")]
    if only:
        dirs = [d for d in dirs if os.path.basename(d).split("-")[0] in only]
    results = []
    with cf.ThreadPoolExecutor(jobs) as ex:
        for sid, prop, status, sigs, wall in ex.map(one, dirs):
            print(f"{sid} {prop} {status} {wall}s {'; '.join(sigs)[:160]}", flush=True)
            results.append({"id": sid, "property": prop, "status": status, "signatures": sigs, "wall_s": wall})
    bad = [r for r in results if r["status"] != "caught"]
    print(f"changes={len(results)} caught={len(results) - len(bad)} not_caught={[r['id'] + ':' + r['status'] for r in bad]}")
    if out:
        json.dump({"head": sh("git -C /repo rev-parse --short HEAD").stdout.strip(), "results": results}, open(out, "w"), indent=1)
    sys.exit(1 if bad else 0)


if __name__ == "__main__":
    main()
