#!/bin/bash
# rewrite everything after the SEEDED-TABLE marker of DESIGN.md from seeded/*/meta.json
cd "$(dirname "$0")/.."
/venv/bin/python - <<'PY'
s=open('DESIGN.md').read(); m='<!-- SEEDED-TABLE -->\n'
i=s.index(m)+len(m); open('DESIGN.md','w').write(s[:i])
PY
tools/seeded_table.py >> DESIGN.md
