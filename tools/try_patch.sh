#!/bin/bash
# usage: tools/try_patch.sh <Cxx> <patch.diff> [tier]   - development helper: run a check against a scratch worktree with a patch
prop=$1; patch=$(realpath "$2"); tier=${3:-quick}
wt=/tmp/wt_try_$$
git -C /repo worktree add --detach $wt >/dev/null 2>&1 || exit 3
git -C $wt apply "$patch" || { git -C /repo worktree remove --force $wt; echo "PATCH DOES NOT APPLY"; exit 3; }
cd "$(dirname "$0")/.."
out=$(VERIF_REPO=$wt ./check $prop --tier $tier 2>&1); rc=$?
echo "$out" | grep "violation signature" | sed 's/.*signature=//' | cut -d' ' -f1 | sort | uniq -c | sort -rn | head -12
echo "$out" | grep -i "HARNESS" | head -3
echo "$out" | tail -1 | cut -c1-200
echo "rc=$rc"
git -C /repo worktree remove --force $wt
rm -rf /tmp/verif_dev/$(basename $wt)
exit $rc
