#!/venv/bin/python
"""Regenerate MANIFEST.json from the table below (kept in one place so the manifest is always valid)."""
import json, os
ROOT = os.path.dirname(os.path.dirname(os.path.abspath(__file__)))

CHECKS = {
 "C05": dict(level="model_checking", design="§3 C05",
   technique="bounded exhaustive enumeration (every second of listed days, 4 instants of every day 1901-2099, every (start,step,duration,split) run history) against an integer-arithmetic calendar reference",
   text="Every whole second of the swept days and four instants of every day 1901-2099 are round-tripped on the real conversion functions; every (start instant, step, duration, single/split call) of the stated lattice is executed on a real truth-only Scenario and its step count, Epoch rows and TruthEphemeris rows are audited. Exhaustive over the lattice; instants between lattice days are not covered.",
   note="python datetime arithmetic is the calendar reference; fake in-process ray replaces worker processes (no scheduling freedom in truth-only runs)"),
 "C08": dict(level="model_checking", design="§2.1, §3 C08",
   technique="explicit-state exploration of job completion orders (stateless replay per schedule over a fake in-process ray, state merging at join barriers) + per-state bookkeeping invariants",
   text="For each small real network (1-3 sensors x 1-3 targets quick, up to 4x4 / 2x5 thorough; Munkres, greedy, all-visible, seeded random; 2-3 steps) every completion order of every parallel job batch (propagate, predict, reward, task execution, update) of the real Scenario.stepForward is replayed on a fresh scenario (all n! orders up to n=5 quick / 6 thorough, <=2 inversions beyond) and must reach the same canonical driver state (agents, filters, sensor pointing, engine matrices, record lists, every DB table) after that join and after every step; after every step of every run the engine's observation/miss lists and DB rows must equal the multiset union of the job results, each tasked pair has exactly one primary record, and tasked sensors carry the boresight/time their job reported.",
   note="Ray modelled by verif/fakeray.py (pickled arguments/results, one finished job per wait); job results are pure functions of submissions (re-checked without memo in the thorough tier); estimates compared to 1e-9 relative because the property allows rounding differences under observation reordering; combinations of permutations in different batches are covered by the one-successor induction, not replayed"),
 "C01": dict(level="model_checking", design="§3 C01",
   technique="explicit-state exploration of event histories on the real scenario loop (one event on every step boundary, every kind, for every (start, step) of a lattice) with integer-second oracle",
   text="For every (start instant, physics step) of the lattice a real Scenario is run for 40 (quick) / 200 (thorough) steps with an event on every step boundary cycling through all instantaneous kinds, plus events 1 s before/after boundaries and mid-step; planned impulses with estimation on; task-priority and sensor-time-bias intervals with ends on boundaries on a two-engine network. Every handleEvent call is logged (row, handler identity, step) and compared with the step computed in integer seconds; agent membership after each step, reward rows (priority factor), bias queues and the final truth/estimate velocities (each delta-v exactly once) are checked.",
   note="default job completion order; TwoBody propagation between impulses is the impulse-effect reference; handleEvent wrappers are installed in the harness process only; ground-facility sensor additions are not exercised (their handler raises for an unrelated reason, see DESIGN)"),
 "C09": dict(level="model_checking", design="§2.2, §3 C09",
   technique="exhaustive enumeration of run-call histories x step pairs x agent-set histories with SQL audit against a recorded reference, plus crash-point enumeration (fault at every SQL statement and at commit of every save)",
   text="Every (physics,output) pair of the lattice x every split of the run into consecutive propagateTo calls x agent-set history (none, additions+removals, maneuver detections) x estimation mode is executed on the real Scenario over an in-memory SQLite DB; the DB is audited against the states recorded from the live objects before each save (exactly one truth/estimate row per live agent per output epoch and none elsewhere, bit-equal values, unique increasing epochs matching their timestamps, every julian_date/agent reference resolvable, no duplicate rows, tasks per engine pair). For every save of a short run an OperationalError is injected at each SQL statement and at the commit: the DB must equal the pre-save or post-save contents.",
   note="SQLite in-memory DB via the real ResonaateDatabase; a DB fault is modelled as OperationalError before a statement / at commit; default job order"),
 "C10": dict(level="model_checking", design="§3 C10",
   technique="pairwise configuration lattice (every single-factor variant and every run split) + exhaustive job-completion-order exploration, comparing truth state bytes per step",
   text="A base scenario (special-perturbations truth, scheduled impulse, station keeping, ground+space sensor) is compared with every single-factor variant (truth-only, filter tuning/resampling/dynamics, detector, reward, decision, sensor noise, FoV/masks, seed, output cadence, every two-call split and one call per step, agents added/removed, second engine) and with every completion order of every job batch: the truth eci_state bytes of every common agent after every step and the TruthEphemeris rows must be identical. Job memoisation is off in this check.",
   note="Ray modelled by verif/fakeray.py; same data files for both runs of a pair"),
 "C14": dict(level="model_checking", design="§3 C14",
   technique="bounded exhaustive lattice enumeration of geometries on the real predicates against an exact-rational / closed-form reference (verif/oracles/visgeom.py)",
   text="On complete lattices (174k cases quick, 7.4M thorough) lineOfSight equals the exact rational segment-versus-sphere test and is symmetric; conic and rectangular FoV membership equals the angular-offset reference, is reflexive and invariant under rotation about the vertical including across the north seam; Sensor.isVisible returns the exact verdict and Explanation for plain, degenerate and north-wrapping azimuth masks, elevation masks, range limits and line of sight; the visible-Sun fraction lies in [0,1], is 1 sunward, 0 in the umbra, monotone across the penumbra and matches the conical-shadow reference to 1e-6; limb obscuration equals the tangent-cone test; lighting/galactic cones switch at their thresholds; az/el helpers have correct quadrants, seam and zenith rule.",
   note="stated constants; flat-disc shadow model in the orbiting-satellite domain; inputs within the derived rounding band of a threshold are classified either-way; nothing is claimed between lattice points"),
 "C19": dict(level="model_checking", design="§3 C19",
   technique="exhaustive enumeration of importer-database histories and gap positions (every (agent, epoch) record removed, with 0/1/2 unrelated agents) on the real importer scenario",
   text="A realtime source run writes a file DB; from it every importer DB of the family (exact set, +1/+2 unrelated agents, an agent absent, and one DB per (imported agent, epoch) with exactly that row removed, each also with +1/+2 unrelated agents) is derived and the real importer scenario (targets / sensors / both imported) is run against it: eci_state equals the DB row after every step, MissingEphemerisError is raised in exactly the step of the gap, stored observations of epoch t_k reach the estimate-update submission of their target at step k and no other (seen at the fake-ray seam), the importer file hash and logical dump are unchanged and the write API refuses.",
   note="importer DBs are SQLite files produced by resonaate's own output of a realtime run with the same start and step; default job order"),
 "C13": dict(level="model_checking", design="§3 C13",
   technique="bounded exhaustive lattice enumeration of (state, epoch, force configuration, batch layout) on the real derivative against an algorithmically independent force reference (verif/oracles/force_ref.py)",
   text="The derivative returned by SpecialPerturbations._differentialEquation equals an independent reference (point mass; own-parsed normalised geopotential via Legendre functions and spherical partials; direct third-body formula in 50-digit arithmetic; cannonball SRP x two-disc visible fraction; Schwarzschild term) to a few ulp of the central term + 1e-11 of the perturbations, for every coefficient file, degree/orders up to 20 (70 thorough), every third-body subset, SRP/GR on and off, 200 km..10 Earth radii, epochs across the EOP table incl. kernel-segment edges and calendar rollovers, and (6,K) layouts; each switch adds or removes exactly its oracle term; Sun/Moon/planet positions are continuous across every Chebyshev segment edge of 2014-2022 and agree with an own Chebyshev evaluation and the Almanac Sun/Moon.",
   note="library ECEF<->ECI rotation (C04) and double-precision Julian dates (C05) are trusted; bundled data files; no finite thrust; collision checking and dynamicsFactory not covered"),
 "C04": dict(level="model_checking", design="§3 C04",
   technique="bounded exhaustive lattice enumeration (every day of the EOP table, swept minutes/seconds, position/site/angle lattices) against an independent FK5/geodesy reference (verif/oracles/frames_ref.py)",
   text="Over every UTC day of the bundled EOP table: the loader serves that day's own row; the IAU-76/FK5 matrices agree with an independent reference model; the Earth-fixed frame advances at Earth rate x (dt + dUT1 step read from the table) across all 3198 day boundaries, both leap seconds and the swept minutes/seconds/sub-seconds; eci<->ecef, lla<->ecef, the SEZ pairs, az/el<->ra/dec and RSW/NTW are mutual inverses, rigid and equal to own-formula references on lattices incl. poles, equator, antimeridian, axes and zenith; calendar/sidereal helpers match exact calendar and rational arithmetic; rot1-3 / skewSymmetric satisfy their identities.",
   note="published FK5 formulae and the two bundled data tables are trusted; frozen-rate GAST approximation and closed-form ecef2lla rounding are designed behaviour; positions within 43 km of the geocentre out of scope; whole-second JD<->datetime belongs to C05"),
 "C12": dict(level="model_checking", design="§3 C12",
   technique="bounded exhaustive lattice enumeration of (a,e,i,node,perigee,anomaly) incl. both sides of the circular/equatorial thresholds against an independent textbook element reference (verif/oracles/orbit_ref.py)",
   text="Every conversion among Cartesian, classical and equinoctial elements (both retrograde families), every anomaly and longitude conversion, both Kepler solvers, singularityCheck, the utils helpers and all three StateConfig.toECI() agree with an independent reference on the complete lattice (2.1M evaluations quick, 25M thorough): 1e-11 normalised on formula paths, a conditioning-derived bound (<=1e-6) plus the designed circular/equatorial classification error on Cartesian extraction; angles in range; Kepler's equation to 1e-9; the three descriptions of one orbit give one state.",
   note="textbook two-body formulas; retrograde-equatorial longitudes measured in the direction of motion (coe2eci's and Vallado's convention); EQE within 1e-6 rad of its singular inclination excluded as documented; nothing claimed between lattice points"),
 "C16": dict(level="model_checking", design="§3 C16",
   technique="bounded exhaustive enumeration of seam placements x turn offsets x all permutations of stacks of <=4 mixed angular/linear observations on the real UKF/GPF against an independent unit-vector UKF reference",
   text="For every announced sigma weighting (incl. strongly negative centre weight) every stack of up to four simultaneous observations mixing 0..2pi, -pi..pi and linear components in every order is driven on the real UnscentedKalmanFilter (and GeneticParticleFilter) with the predicted angle on / within 1e-9 / within 1e-3 of its seam: posterior, innovation and innovation covariance equal an independent seam-free reference, are unchanged when the wrap point moves, when whole turns are added to measured or predicted angles, and under every permutation (within a derived rounding tolerance); innovations lie in (-pi, pi]; the same with real Azimuth/Elevation/Range classes and a target on the north seam; wrap/residual/circular-mean helpers agree with exact rational and unit-vector references.",
   note="python fractions/atan2 as arithmetic reference; resonaate's measurement geometry (C04/C14) evaluates the real measurement function; linear dynamics stub; predicted angular spread <= 0.3 rad; GPF resampling draws not covered"),
 "C17": dict(level="model_checking", design="§3 C17",
   technique="explicit-state breadth-first exploration of innovation histories on the real detectors (deepcopy branching), constant tails to length 12/50, lock-step reference detector, differential continued-vs-fresh oracle",
   text="Over every innovation history of length <=4 (quick) / <=6 (thorough) from 5-symbol families of {dimension 1,2,3,8} x {NIS levels around the single-step and the detector's own bound} x {identity, full SPD}, each extended by constant tails to 12 and 50, for thresholds {0.001,0.05,0.5}, windows {1,2,4,10}, delta {0.1,0.8,0.99}: the real StandardNis/SlidingNis/FadingMemoryNis declare a maneuver exactly when the documented statistic reaches the chi-square bound (incl. exact ties), report it as .metric to 1e-11, never lose a detection when the latest innovation is scaled up, behave identically continued-from-history or rebuilt-from-config, and SequentialFilter.checkManeuverDetection raises exactly the documented flags.",
   note="scipy incomplete-gamma functions as chi-square reference; fading-memory dof uses the running mean dimension as the code comments; arbitrary length-50 histories narrowed to prefix + constant tail"),
 "C20": dict(level="model_checking", design="§3 C20",
   technique="bounded exhaustive lattice enumeration of Keplerian arcs, radar geometries and IOD scenarios (real LambertIOD over a real in-memory DB) against an independent Kepler/FK5 reference",
   text="lambertUniversal, lambertBattin (and lambertGauss on arcs <=30 deg) return the end velocities of every bound Keplerian arc of the lattice (e<=0.7, tof 0.005-0.98 P, both senses, >=5 deg from 0/180/360) and propagating the returned velocity arrives at r2 with the returned v2; radarObs2eciPosition inverts the noise-free radar measurement for ground and space sites; the real LambertIOD on a real in-memory database returns the true state from two noise-free radar observations of a near-circular orbit up to 40 % of a period apart while ignoring other-target, optical, out-of-window and unordered rows; the adaptive filter's Lambert entry points produce impulses that reach the observed point.",
   note="closed-form two-body oracle (verif/oracles/c20_ref.py) and the FK5/geodesy oracle of C04; whole-second JD round trips (C05); hyperbolic/parabolic transfers and the exact 180 deg singularity out of scope"),
 "C02": dict(level="model_checking", design="§3 C02",
   technique="bounded exhaustive enumeration of sensor/host/mask/FoV/slew/range/phenomenology lattices on the real collectObservations pipeline against an independent failing-constraint oracle (verif/oracles/c02_geom.py)",
   text="The real sensor pipeline (all three sensor kinds on ground and space hosts, built with sensorFactory / SensingAgent.fromConfig on a real clock) is driven over complete lattices (12k tasked attempts quick, 90k thorough) incl. every mask end, the north seam, the zenith, FoV edges, slew/range/radar/illumination/magnitude/exclusion/limb thresholds, background sets of 0-2 targets and noise vectors 0, +-e_i. Every returned record is compared with an independently recomputed failing-constraint set and geometry: no observation (tasked or serendipitous) violates a constraint, each tasked attempt yields exactly one primary record (observation xor miss), miss reasons are true, measurements equal the geometry exactly and differ by exactly sqrtm(R) e_i under enumerated noise; Measurement/Observation classes, predictObservation, asyncExecuteTasking and the stored rows agree with the same oracle.",
   note="library eci2ecef rotation and Sun.getPosition trusted (C04, C13); ecef2lla accurate to 1e-10 rad; spherical Earth of the equatorial radius for line of sight; stated either-way bands (limb/darkness geodetic-vs-geocentric vertical, Sun parallax); tasking-engine bookkeeping is C08's"),
 "C03": dict(level="model_checking", design="§3 C03",
   technique="bounded exhaustive lattice enumeration (90 orbits x spans x split points x batch layouts x output grids x epoch shifts x forced restarts) on the real propagators against an independent closed-form Kepler reference (verif/oracles/kepler_ref.py)",
   text="The real TwoBody and SpecialPerturbations dynamics are driven through Celestial.propagate/propagateBulk with RK45 and DOP853 on a complete lattice of 90 bound orbits (LEO to 60000 km, e<=0.7, i in {0,28.5,90,150,180} deg) and spans from 1 s to 1 day: every split point, batch column, output grid, forced stop/restart and start-epoch shift reproduces the single call within a derived integrator tolerance (>=4x above the worst measured error, orders below layout/restart/epoch defects); two-body results, solveKeplerProblemUniversal and the scalar helpers of orbits/utils.py agree with an independent Kepler reference and conserve energy and angular momentum.",
   note="solve_ivp honours rtol/atol; closed-form conic relations are the truth; the SP force value itself is C13's; with SRP enabled only effects larger than the SRP displacement are visible; nothing between lattice points, no negative scenario times"),
 "C11": dict(level="model_checking", design="§3 C11",
   technique="bounded exhaustive lattice enumeration (108 sites x every start second of listed minutes x steps x elapsed times up to days) through the real config->clock->dynamicsFactory->Terrestrial->SensingAgent->propagation-job path and real truth-only scenarios, against an own geodetic closed form and the independent FK5 reference",
   text="For every lattice point the reported inertial state, the TruthEphemeris rows and the agent's ECEF/LLA views lie within 1 m of an independently computed Earth-fixed site position at the true UTC instant (python datetime arithmetic), the inertial velocity equals (rotation rate incl. LOD about the pole of date) x r to 1e-10 km/s, Terrestrial.propagate is independent of t0 and of the state passed in, and sensors added mid-run (directly and by a sensor_addition event) are placed correctly.",
   note="UTC without leap-second insertion as in the library; the ECI<->ECEF reduction is C04's (cross-checked against C04's independent reference); ellipsoid constants are own literals"),
 "C15": dict(level="model_checking", design="§3 C15",
   technique="bounded exhaustive enumeration of (burn start, burn end) pairs against the step grid x kinds x dynamics on real TargetAgents (direct queueing and real event rows) and real truth-only Scenarios, against an independent DOP853 integration thrusting only inside the interval",
   text="Every burn start/end pair of a six-instant alphabet relative to the step grid (inside one step, spanning 2-3 steps, start or end exactly on a boundary) for ECI and NTW burns and spiral and plane-change maneuvers, on SpecialPerturbations and TwoBody, steps 60/300 s (30/450 thorough): the state after every step equals to 1e-7 km/s and 2e-5 km an independent integration that thrusts only inside [t_start, t_end] (a 1 s timing error is 1e-5 km/s), the delivered delta-v equals the reference burn's, the event queue after every prune holds exactly one copy of each not-yet-ended burn, and an exact closed-form protocol lattice checks Celestial.propagate's event handling directly.",
   note="library gravity derivative and Julian-date conversion are other properties' subjects; scipy DOP853 is the reference integrator; burns on one agent do not overlap"),
 "C18": dict(level="model_checking", design="§3 C18",
   technique="explicit-state exploration of observation histories (tree from pickled snapshots of the real filter objects) on the real StaticMultipleModel / GeneralizedPseudoBayesian1 with real UKF models, lock-step independent log-space Bayes / Kalman / moment-matching reference",
   text="For 2, 3, 5 and 30 models, four layouts incl. likelihood underflow and a far-away no-maneuver model, 4 prune thresholds, 2-3 convergence percentages and every observation history to depth 3 (quick) / 4-5 (thorough) or until closure, also through the real EstimateAgent serial and job-path updates: after every predict, update and prune the probabilities are finite, non-negative, sum to one and follow Bayes' rule (with the documented uniform reset, GPB1 mixing and SMM pre-weighting), at least one model remains and exactly the models at or above the threshold survive (the most probable one when all are marked), estimate and covariance are the weighted mean and moment-matched mixture (symmetric PSD), closure happens exactly when the chi-square-gated rule says, and the handed-back filter is the surviving / merged model and keeps filtering.",
   note="numpy and scipy.stats.chi2 arithmetic; UKF = KF on linear systems in the no-redraw mode (C06); hypothesis generation (DB and Lambert) stubbed; the 1e-15 reset accepted as designed"),
 "C07": dict(level="model_checking", design="§3 C07",
   technique="small-scope exhaustive enumeration of (visibility mask, reward matrix) on the real Decision/Reward/engine code against a brute-force assignment oracle (verif/oracles/c07_assign.py)",
   text="For every visibility mask and visibility-masked reward matrix with entries in {-1,0,1,2} for all shapes with T*S<=8, 3x3 over {-1,0,2} (quick) / {-1,0,1,2} (thorough), and 3x4/4x3/4x4 lattices over {0,1}/{0,1,2} under named masks: Munkres and greedy only task visible pairs with at most one target per sensor (Munkres also one sensor per target), Munkres returns a maximum-total complete one-to-one assignment ANDed with visibility, greedy gives each sensor a maximum-reward target of its column, relabelling relabels the decision when the optimum is unique, AllVisible returns exactly the mask, Random picks one visible target per seeing sensor reproducibly for equal seeds; beyond 4x4 on all 5x5/6x6 permutation-matrix rewards, structured families up to 8x8 and constructed known-optimum rewards up to 40x40; normalizeMetrics divides each metric slice by its positive maximum; CostConstrained, Combined and SimpleSummation equal their docstring formulae for every metric-type order; the engine's calculateRewards/generateTasking/getCurrentTasking put the right value at the right (target, sensor) id, also on the tasks table of a real 4x2 scenario.",
   note="rewards handed to a decision are masked by visibility as the engine produces them; ties may be broken arbitrarily; real-valued totals within 1e-9 are ties; the property's 'randomly up to 40x40' is replaced by deterministic families (sampling is another technique family); stub metrics stand in for filter-based metric values"),
 "C06": dict(level="model_checking", design="§3 C06",
   technique="bounded exhaustive enumeration of linear-Gaussian systems x tunings x observation stacks x operation sequences on the real UnscentedKalmanFilter, one-step lock-step conformance against a textbook Kalman filter (verif/oracles/kf_linear.py)",
   text="The real UKF is driven on linear-Gaussian systems of dimension 1..8 (four transition-matrix kinds; identity/diagonal/full/ill-conditioned 1e-6..1e6 P, Q, R; 4-6 admissible tunings; both resample modes) over every ordered stack of 1..4 observations with dimensions 1..4 (total <=8) and every operation sequence over {predict, update(none), update(1 obs), update(3-obs stack), forecast} to depth 3 (4 thorough), each step also replayed through the result-object/apply path: predict equals the Kalman prediction, resample=True equals the Kalman update and resample=False the documented no-redraw variant, weights and sigma points follow their closed forms, covariances are symmetric PSD with est_p = pred_p - K S K^T <= pred_p, a step without observations returns the propagated centre point, result objects round-trip bitwise, and the process-noise builders equal their closed forms.",
   note="numpy dense linear algebra is the reference arithmetic; tolerances derived from eps*sum|w| and eps*cond(S); the reference KF is restarted from the filter's actual state at every step (one-step conformance); angular residuals/means belong to C16; a posterior singular at working precision makes the next prediction undefined (either-way)"),
}

NOT_APPLICABLE = {}

# what the seeded-change rounds (DESIGN 7.4) added to each check's enumeration, appended to the level text
ADDED = {
 "C01": "fractional-second event times, several impulses of one agent at one instant, configured span equal to / shorter than the run, timestamps written with UTC offsets.",
 "C02": "real job results of every outcome mix merged through processResults into a real engine and the stored rows; sensors built through the sensor_addition event round trip; multi-engine scenarios replaying each sensor's pointing history.",
 "C03": "dynamics obtained through dynamicsFactory at a non-zero clock time (epoch_split / epoch_twin), fractional-second epochs (force_epoch / epoch_resolution), station keeping (one call vs every split), schedules with stale events.",
 "C04": "moving observers for the razel/radec functions, memory of previous calls, instants in the last minute of a day and on year boundaries.",
 "C05": "the runResonaate entry point with decimal hour values, output step = 3 x physics past the configured span, host time zones other than UTC, start instants with a fractional second.",
 "C06": "multi-step histories with and without redraw, tunings built from configuration, the number type / container of every input (ints, float32, lists, scalars).",
 "C07": "rewards and engines built through the configuration routes (every ordered metric list with repeats), every tuple of sensor lists for 1-3 engines through the real ScenarioBuilder.",
 "C08": "jobs carrying a hit and a miss of one target, target and sensor sets that change during the run, two tasking engines with membership invariants.",
 "C09": "runs past the configured span, start instants with a fractional second, imported agents, a sensor time bias, and every observation / miss delivered through the seam must be stored exactly once.",
 "C10": "agents added mid-run as exact twins, imported sensors, a target shared by two engines (identical state legal, different state refused), non-multiple output steps, an estimate within centimetres of the truth.",
 "C11": "a calendar lattice (31 Jan .. 1 Mar of leap and common years), scenario runs across those midnights with a per-step sidereal-rotation check, a day-of-year sweep.",
 "C12": "retrograde-equatorial and circular special cases through every conversion route and through the state configuration classes.",
 "C13": "batched (unordered, repeated, strided) epoch arrays for every body and kernel segment, dynamics obtained through dynamicsFactory at clock time T, a calendar epoch lattice (31 Dec of leap years, February boundaries).",
 "C14": "real Optical / Radar / AdvRadar isVisible verdicts against an ECI oracle for sensor and target at different radii, directions within arcseconds of the zenith / nadir.",
 "C15": "impulses coincident with burn start / end, propagateBulk with several events, zero-length burns, back-to-back burns in both queue orders.",
 "C16": "multi-turn angles, stale stacked R across updates on one filter object, every ordered selection of measurement component labels through Measurement.fromMeasurementLabels and the sensor config path.",
 "C17": "the DetectedManeuver record built by a real EstimateAgent (serial and job path), histories that pass through adaptive estimation and back.",
 "C18": "1-3 radar / optical observation sets at the step that opens MMAE, realistic magnitudes (LEO-GEO radii, 10 cm - 1 km sigmas) against an exact-arithmetic mixture, the real initialize() over an in-memory database with initial pruning.",
 "C19": "observation import with realtime observation on, a sensor id re-used during the run, day-long runs, agent epoch and Earth-fixed views, output rows, the importer file re-created at one path between runs.",
 "C20": "near-zenith / nadir / azimuth-wrap observation geometries, IOD obtained through a real EstimateAgent created mid-run, every configured solver label.",
}

def main():
    props = [json.loads(l) for l in open(os.path.join(ROOT, "properties.jsonl"))]
    ids = [p["id"] for p in props]
    checks = []
    import re
    for pid in ids:
        if pid not in CHECKS:
            continue
        c = CHECKS[pid]
        src = open(os.path.join(ROOT, "verif", "props", f"{pid.lower()}.py")).read()
        lvl = re.search(r'^LEVEL = "(\w+)"', src, re.M).group(1)
        assert lvl == c["level"], f"{pid}: module LEVEL {lvl} != manifest level {c['level']}"
        checks.append({
            "property_id": pid,
            "quick_cmd": f"./check {pid} --tier quick",
            "thorough_cmd": f"./check {pid} --tier thorough",
            "evidence_file": f"/verif/evidence/{pid}.json",
            "replay_cmd_template": f"./check {pid} --replay {{path}}",
            "engine": c.get("engine", "verif"),
            "level_claimed": {"category": c["level"], "text": c["text"] + (" Added by the seeded-change rounds: " + ADDED[pid] if pid in ADDED else ""), "design_ref": c["design"]},
            "level_note": c["note"],
            "technique": c["technique"],
        })
    na = [{"property_id": pid, "reason": NOT_APPLICABLE.get(pid, "check not built yet in this round; no claim is made")}
          for pid in ids if pid not in CHECKS]
    manifest = {
        "version": 1,
        "setup_cmd": "true",
        "hooks": {
            "guard": "RESONAATE_VERIF",
            "enable": "no source hooks: checks import resonaate from /repo/src of the working tree and install verif/fakeray.py as sys.modules['ray'] before the import (./check exports RESONAATE_VERIF=1 for symmetry only)",
            "baseline_off_cmd": "cd /repo && /venv/bin/python -m pytest -ra -q -p no:cacheprovider --timeout=900 --continue-on-collection-errors",
            "source_commits": [],
            "add_only": True,
        },
        "engines": [
            {"name": "verif", "path": "/verif/verif", "serves_properties": sorted(CHECKS),
             "kind_free_text": "hand-written explicit-state / bounded-exhaustive explorers in Python driving the real resonaate code: lattice explorer (inputs), schedule explorer over a fake in-process ray (job completion orders), history explorer (operation/event/fault sequences, crash points)"},
        ],
        "checks": checks,
        "not_applicable": na,
        "notes": "All checks: ./check <Cxx> [--tier quick|thorough] [--replay FILE]; env VERIF_SEED shifts the phase of enumeration lattices only. known_findings.json lists recorded defects (open) and repaired ones (fixed).",
    }
    with open(os.path.join(ROOT, "MANIFEST.json"), "w") as fh:
        json.dump(manifest, fh, indent=1)
        fh.write("\n")
    print("checks:", [c["property_id"] for c in checks], "not_applicable:", [n["property_id"] for n in na])

main()
