#!/bin/bash
# usage: tools/run_all.sh [tier] [seed...]   - runs every registered check, prints one line per check
cd "$(dirname "$0")/.."
tier=${1:-quick}; shift
seeds=${@:-0}
for s in $seeds; do
  for c in $(/venv/bin/python -c "import json;print(' '.join(x['property_id'] for x in json.load(open('MANIFEST.json'))['checks']))"); do
    out=$(VERIF_SEED=$s ./check $c --tier $tier 2>&1); rc=$?
    echo "seed=$s rc=$rc $(echo "$out" | grep "^$c tier" | sed 's/evaluations=//; s/distinct_nontrivial=/nt=/' | cut -c1-160) $(echo "$out" | grep -c '^VIOLATION') viol $(echo "$out" | grep -c '^KNOWN') known $(echo "$out" | grep -c 'HARNESS') harness"
  done
done
