#!/venv/bin/python
"""Rewrite the table of DESIGN.md section 7.1 from evidence/*.json (run after `tools/run_all.sh quick 0`)."""
import json, re, sys

def fmt(n):
    return f"{n:,}".replace(",", " ")

rows = ["| id | evaluations | distinct non-trivial | states / transitions | traces replayed on the implementation | wall | known findings |",
        "|---|---|---|---|---|---|---|"]
for i in range(1, 21):
    pid = f"C{i:02d}"
    d = json.load(open(f"/verif/evidence/{pid}.json"))
    c = d["coverage"]
    assert d["tier"] == "quick", (pid, d["tier"])
    kf = c.get("known_findings_reported") or []
    rows.append(f"| {pid} | {fmt(c['evaluations'])} | {fmt(c['distinct_nontrivial'])} | {fmt(c['states'])} / {fmt(c['transitions'])} | "
                f"{fmt(c.get('traces_validated_against_impl', 0))} | {d['wall_s']:.0f} s | {len(kf)}{' (' + ', '.join(kf) + ')' if kf else ''} |")
s = open("/verif/DESIGN.md").read()
a = s.index("| id | evaluations | distinct non-trivial |")
b = s.index("\n\n", a)
s = s[:a] + "\n".join(rows) + s[b:]
open("/verif/DESIGN.md", "w").write(s)
print("\n".join(rows))
