#!/venv/bin/python
"""Confirm one seeded change and store it under /verif/seeded/<id>/.

usage: confirm_seeded.py <id> <property> <patch.diff> <demo.py> <needs-text> [--no-suite]
Steps (all in a scratch worktree of /repo HEAD, removed afterwards):
  1. demo on the untouched tree must exit 0
  2. patch applies; demo must exit non-zero
  3. pinned test suite with the patch: every stable_pass test still passes (tools/baseline.py --repo)
  4. ./check <property> --tier quick against the patched tree must print VIOLATION
"""
import json, os, shutil, subprocess, sys, time

def sh(cmd, **kw):
    return subprocess.run(cmd, shell=True, stdout=subprocess.PIPE, stderr=subprocess.STDOUT, text=True, **kw)

def main():
    sid, prop, patch, demo, needs = sys.argv[1:6]
    no_suite = "--no-suite" in sys.argv
    wt = f"/tmp/wt_seed_{sid}"
    sh(f"git -C /repo worktree remove --force {wt}")
    r = sh(f"git -C /repo worktree add --detach {wt}")
    assert r.returncode == 0, r.stdout
    env = dict(os.environ, PYTHONPATH=f"{wt}/src", RAY_memory_monitor_refresh_ms="0")
    meta = {"id": sid, "property": prop, "needs_to_manifest": needs, "repo_head": sh("git -C /repo rev-parse --short HEAD").stdout.strip(), "ran": {}}
    try:
        d0 = subprocess.run(["/venv/bin/python", demo], cwd=wt, env=env, stdout=subprocess.PIPE, stderr=subprocess.STDOUT, text=True, timeout=1800)
        meta["ran"]["demo_without_change_exit"] = d0.returncode
        a = sh(f"git -C {wt} apply {patch}")
        meta["ran"]["patch_applies"] = a.returncode == 0
        d1 = subprocess.run(["/venv/bin/python", demo], cwd=wt, env=env, stdout=subprocess.PIPE, stderr=subprocess.STDOUT, text=True, timeout=1800)
        meta["ran"]["demo_with_change_exit"] = d1.returncode
        meta["ran"]["demo_with_change_tail"] = d1.stdout.strip().splitlines()[-3:]
        if not no_suite:
            t0 = time.time()
            b = sh(f"/verif/tools/baseline.py --repo {wt} -n 8")
            meta["ran"]["suite_cmd"] = f"tools/baseline.py --repo <worktree with patch> -n 8 (pinned pytest command + xdist)"
            meta["ran"]["suite_exit"] = b.returncode
            meta["ran"]["suite_tail"] = b.stdout.strip().splitlines()[-3:]
            meta["ran"]["suite_wall_s"] = round(time.time() - t0)
        c = sh(f"cd /verif && VERIF_REPO={wt} ./check {prop} --tier quick")
        lines = [l for l in c.stdout.splitlines() if "violation signature" in l]
        meta["ran"]["check_cmd"] = f"VERIF_REPO=<worktree with patch> ./check {prop} --tier quick"
        meta["ran"]["check_exit"] = c.returncode
        meta["ran"]["check_violation_signatures"] = sorted({l.split("signature=")[1].split(" ")[0] for l in lines})
        meta["caught_by"] = prop if c.returncode == 1 else None
    finally:
        sh(f"git -C /repo worktree remove --force {wt}")
        shutil.rmtree(f"/tmp/verif_dev/{os.path.basename(wt)}", ignore_errors=True)
    out = f"/verif/seeded/{sid}"
    os.makedirs(out, exist_ok=True)
    if not needs and os.path.exists(f"{out}/meta.json"):
        meta["needs_to_manifest"] = json.load(open(f"{out}/meta.json")).get("needs_to_manifest", "")
    if no_suite and os.path.exists(f"{out}/meta.json"):
        # a re-run of the check only: keep the pinned-suite result recorded when the change was first confirmed
        old = json.load(open(f"{out}/meta.json"))
        for k, v in old.get("ran", {}).items():
            if k.startswith("suite_"):
                meta["ran"].setdefault(k, v)
        meta["ran"]["check_rerun_after_strengthening"] = True
        if not needs:
            meta["needs_to_manifest"] = old.get("needs_to_manifest", "")
        if old.get("caught_by") is None and meta["caught_by"]:
            meta["strengthened"] = "missed when first confirmed; caught after the check was strengthened"
        elif "strengthened" in old:
            meta["strengthened"] = old["strengthened"]

    def copy(src, dst):
        if os.path.abspath(src) != os.path.abspath(dst):
            shutil.copyfile(src, dst)

    copy(patch, f"{out}/patch.diff")
    copy(demo, f"{out}/demo.py")
    md = patch.replace(".diff", ".md")
    if os.path.exists(md):
        copy(md, f"{out}/notes.md")
    json.dump(meta, open(f"{out}/meta.json", "w"), indent=1)
    ok = (meta["ran"]["demo_without_change_exit"] == 0 and meta["ran"]["demo_with_change_exit"] != 0
          and meta["ran"].get("suite_exit", 0 if no_suite else 1) == 0)
    print(sid, "CONFIRMED" if ok else "NOT-CONFIRMED", "caught" if meta["caught_by"] else "MISSED", json.dumps(meta["ran"])[:600])

main()
