#!/venv/bin/python
"""Development diagnostic: lines of the anchored files of a property that its quick check never executes.

usage: VERIF_LINECOV=/tmp/lc_C08 ./check C08 --tier quick ; tools/linecov_report.py C08 /tmp/lc_C08
Lists, per anchored file, the executable lines (from the compiled code objects) that no worker process executed,
grouped into ranges with the enclosing function name.  Import-time lines count as executed only if a worker imported
the module after the monitor was installed, so module-level statements are ignored.
"""
import ast, glob, json, os, sys

pid, d = sys.argv[1:3]
rec = next(json.loads(l) for l in open("/verif/properties.jsonl") if json.loads(l)["id"] == pid)
hit = set()
for f in glob.glob(f"{d}/*.txt"):
    for l in open(f).read().split("\n"):
        if l:
            fn, n = l.rsplit(":", 1)
            hit.add((fn, int(n)))
files = sys.argv[3:] or rec["anchors"]["files"]
for af in files:
    rel = af[len("src/"):] if af.startswith("src/") else af
    path = f"/repo/src/{rel}"
    if not os.path.exists(path):
        continue
    src = open(path).read()
    tree = ast.parse(src)
    code = compile(src, path, "exec")
    lines_by_func = {}

    def walk(co, qual):
        for c in co.co_consts:
            if hasattr(c, "co_code"):
                name = f"{qual}.{c.co_name}" if qual else c.co_name
                ls = {ln for _, _, ln in c.co_lines() if ln is not None and ln != c.co_firstlineno}
                # drop docstring-only lines
                lines_by_func[name] = (c.co_firstlineno, ls)
                walk(c, name)

    walk(code, "")
    out = []
    for name, (first, ls) in sorted(lines_by_func.items(), key=lambda kv: kv[1][0]):
        if not ls or any(x in name for x in ("<listcomp>", "<genexpr>", "<dictcomp>", "<setcomp>", "<lambda>")):
            continue
        miss = sorted(l for l in ls if (rel, l) not in hit)
        if miss:
            tag = "NEVER CALLED" if len(miss) == len(ls) else f"{len(miss)}/{len(ls)} lines"
            out.append(f"   {name} (line {first}): {tag}: {miss[:25]}")
    print(f"{rel}: {len(out)} functions with unexecuted lines")
    for o in out:
        print(o)
