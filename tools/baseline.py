#!/venv/bin/python
"""Run the pinned test suite of /repo (or another tree) and compare with /root/.vp/BASELINE.json stable_pass.

usage: baseline.py [--repo DIR] [-n N] [pytest args...]
exit 0 iff every stable_pass test passed.
"""
import json, os, subprocess, sys, tempfile, xml.etree.ElementTree as ET

def main():
    args = sys.argv[1:]
    repo = "/repo"
    n = None
    extra = []
    while args:
        a = args.pop(0)
        if a == "--repo":
            repo = args.pop(0)
        elif a == "-n":
            n = args.pop(0)
        else:
            extra.append(a)
    base = json.load(open("/root/.vp/BASELINE.json"))
    stable = set(base["stable_pass"])
    fd, xml = tempfile.mkstemp(suffix=".xml", prefix="baseline_")
    os.close(fd)
    cmd = ["/venv/bin/python", "-m", "pytest", "-q", "-p", "no:cacheprovider", "--timeout=900",
           "--continue-on-collection-errors", f"--junitxml={xml}"]
    if n:
        cmd += ["-n", n]
    cmd += extra
    env = dict(os.environ)
    env.pop("RESONAATE_VERIF", None)
    env["PYTHONPATH"] = os.path.join(repo, "src")
    p = subprocess.run(cmd, cwd=repo, env=env, stdout=subprocess.PIPE, stderr=subprocess.STDOUT, text=True)
    tail = p.stdout.strip().splitlines()[-1:] 
    passed = set()
    failed = {}
    for tc in ET.parse(xml).getroot().iter("testcase"):
        name = f"{tc.get('classname')}::{tc.get('name')}"
        bad = [c.tag for c in tc if c.tag in ("failure", "error", "skipped")]
        if bad:
            failed[name] = bad[0]
        else:
            passed.add(name)
    os.unlink(xml)
    missing = sorted(stable - passed)
    print(f"pytest: {tail}")
    print(f"stable_pass={len(stable)} passed_now={len(passed)} stable_not_passing={len(missing)}")
    for m in missing[:40]:
        print("  NOT PASSING:", m, failed.get(m, "absent"))
    return 1 if missing else 0

sys.exit(main())
