#!/venv/bin/python
"""Print the prompt for an independent 'seeded change' sub-agent of one property.

usage: mutation_prompt.py <Cxx> <round> <worktree> [n_changes]
The agent receives the property record, its own scratch worktree, the pinned test command and a list of
one-line triggers that earlier rounds already used (so that it looks elsewhere) - nothing else from /verif.
"""
import glob, json, sys

pid, rnd, wt = sys.argv[1:4]
n = int(sys.argv[4]) if len(sys.argv) > 4 else 2
rec = next(json.loads(l) for l in open("/verif/properties.jsonl") if json.loads(l)["id"] == pid)
used = []
for f in sorted(glob.glob(f"/verif/seeded/{pid}-m*/meta.json")):
    m = json.load(open(f))
    used.append("  - " + m.get("needs_to_manifest", "").strip()[:200])
steer = {
    "8": "Look in places a direct driver of the anchored functions would not reach: objects rebuilt from a database row or a "
         "pickled job submission, a second call on an object that was used before, defaults taken when a configuration field "
         "is omitted, three or more participants (sensors, targets, engines, models, events) where two behave, values at scale "
         "(days instead of minutes, GEO instead of LEO, 1e-9 instead of 1), the last element / the empty collection / a "
         "collection of one, two features that are each fine alone (e.g. station keeping + impulse, time bias + slew limit, "
         "importer + event, output step + run split, pruning + closure), or a caller of the anchored functions elsewhere in "
         "the package that depends on the clause.",
    "9": "Prefer changes whose effect appears only after a HISTORY: the third or later step of a run, a second run or a "
         "re-used object in the same process, an object restored from the database or re-created after a removal, a value "
         "that only goes wrong when two rarely combined options are both set, a branch taken only for a collection of "
         "three or more / of exactly one / empty, a numeric path taken only at unusual but legal magnitudes or exactly on a "
         "boundary (equality, zero, a wrap point, the last sample), a cache or memo that is keyed or invalidated wrongly, "
         "an ordering assumption (sorted input, completion order, dict order) that normally happens to hold, or a helper "
         "that other modules of the package call and that the property depends on indirectly. Avoid the first idea that "
         "comes to mind for this property: earlier rounds have used the obvious sites already (list below).",
}.get(rnd, "")
print(f"""You are helping to evaluate a verification harness for the Python library vtnsi/resonaate (a space-surveillance
simulator). You have your OWN scratch git worktree of the library at {wt} (create it first with
`git -C /repo worktree add --detach {wt}`; source under {wt}/src/resonaate, tests under {wt}/tests). Work ONLY there; never
edit /repo and never read or write anything under /verif. Use /venv/bin/python (it has resonaate's dependencies); run code
against your worktree with PYTHONPATH={wt}/src.

Here is one semantic property the library is supposed to satisfy:

{json.dumps(rec, indent=1)}

Task: produce {n} DIFFERENT realistic changes to the library source (each a small patch, 1-15 changed lines, the kind of
slip or 'simplification' a maintainer could commit: a stale variable, an off-by-one, a dropped wrap, a wrong index or
sign in a rarely taken branch, a cache keyed too coarsely, state carried over or reset wrongly, a unit slip, a comparison
made exclusive, two sites that each look fine alone) such that, for each change:
 (1) the library still imports and the EXISTING test suite still passes with the change
     (run: cd {wt} && PYTHONPATH={wt}/src /venv/bin/python -m pytest -q -p no:cacheprovider --timeout=900 -n 4 tests
     - PYTHONPATH is required because /venv has an editable install of /repo; it takes 3-10 minutes on the shared machine.
     A few tests fail or fail to collect on the UNCHANGED tree as well (testRemoteData needs the network,
     tests/common/test_config.py, testCalculateMetric, testEntryPoint): "passes" means the same set as a clean-tree run,
     nothing new. Never use pkill/killall with a pattern - other agents run the same commands; kill by PID only);
 (2) the change BREAKS the property above (a clause of its statement becomes false for some input/schedule/history);
 (3) it needs something SPECIFIC to manifest - a particular interleaving or completion order, a fault at a particular
     point, a multi-step sequence of operations, an unusual but legal input or configuration, or two cooperating sites -
     not something ordinary use would expose at once;
 (4) you provide a standalone demonstration script demo.py (run as `cd <tree> && PYTHONPATH=<tree>/src /venv/bin/python demo.py`)
     that exits 0 on the UNCHANGED tree and exits non-zero (printing what is violated) WITH the change, in under 2 minutes.
     The demo must judge the property with an independent expectation (closed form, brute force, a differential run), not
     merely compare against numbers recorded from the unchanged code, and must not use the network or real Ray workers
     if it can be avoided (call the functions/classes directly; an in-memory `sqlite://` database is fine).
{steer}
Triggers that earlier changes for this property already used - do NOT reuse these mechanisms or the same lines of code;
pick different functions, branches or interactions:
{chr(10).join(used) if used else '  (none)'}

Deliverables, written to {wt}/_out/ (create it): for k = 1..{n}: change{{k}}.diff (output of `git diff` for that change
alone, applying cleanly to the unchanged tree with `git apply`), demo{{k}}.py, and notes{{k}}.md (3-8 lines: which clause
breaks, what it needs in order to manifest, what you ran and saw). Verify each yourself: demo passes on the clean tree
(`git apply -R` / `git checkout -- src`; never `git stash` - the stash is shared by all worktrees of /repo), fails with the patch, test suite passes with the patch. Leave the worktree clean
(no patch applied) at the end but keep _out/. Do not remove the worktree. Your final message: for each change one line
`change{{k}}: <needs-to-manifest in <= 25 words> | suite: pass/fail | demo: clean=0 patched=<rc>`.
If you cannot find a change satisfying all of (1)-(4) for a slot, say so rather than delivering a weak one.""")
