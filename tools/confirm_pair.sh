#!/bin/bash
# usage: tools/confirm_pair.sh <Cxx> <outdir> <first-id-number> "<needs1>" "<needs2>" [--no-suite]
p=$1; o=$2; n=$3
for k in 1 2; do
  id=$p-m$((n+k-1)); needs="$4"; [ $k = 2 ] && needs="$5"
  [ -f $o/change$k.diff ] || { echo "$id: no change$k.diff"; continue; }
  [ -f $o/notes$k.md ] && cp $o/notes$k.md $o/change$k.md
  /verif/tools/confirm_seeded.py $id $p $o/change$k.diff $o/demo$k.py "$needs" $6
done
