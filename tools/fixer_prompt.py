#!/venv/bin/python
"""Print the prompt for a 'fixer' sub-agent that strengthens one check after a seeded change was missed.

usage: fixer_prompt.py <SID> [extra text...]     e.g. fixer_prompt.py C06-m15 "also ..."
"""
import os, sys
sid = sys.argv[1]
pid = sid.split("-")[0]
t = open(os.path.join(os.path.dirname(__file__), "fixer_prompt.txt")).read()
print(t.replace("{pid}", pid.lower()).replace("{PID}", pid).replace("{SID}", sid).replace("{EXTRA}", " ".join(sys.argv[2:])))
