#!/venv/bin/python
"""Write /verif/seeded/<id>/meta.json for a staged seeded change from (a) its demo run on a clean scratch worktree of
/repo HEAD and on the same worktree with patch.diff applied, and (b) the log of `tools/try_patch.sh <Cxx> patch.diff`
(the property's quick check against a patched scratch worktree).  The pinned suite is NOT run here
(tools/suite_seeded.py does that later and adds ran.suite_*).

usage: meta_from_triage.py <id> <try-log> "<needs-to-manifest>" ["<strengthened note>"]
"""
import json, os, re, subprocess, sys

sid, log, needs = sys.argv[1:4]
note = sys.argv[4] if len(sys.argv) > 4 else ""
prop = sid.split("-")[0]
d = f"/verif/seeded/{sid}"
wt = f"/tmp/wt_meta_{sid}"
sh = lambda c: subprocess.run(c, shell=True, stdout=subprocess.PIPE, stderr=subprocess.STDOUT, text=True)
sh(f"git -C /repo worktree remove --force {wt}")
assert sh(f"git -C /repo worktree add --detach {wt}").returncode == 0
env = dict(os.environ, PYTHONPATH=f"{wt}/src")
meta = {"id": sid, "property": prop, "needs_to_manifest": needs,
        "repo_head": sh("git -C /repo rev-parse --short HEAD").stdout.strip(), "ran": {}}
try:
    for f in os.listdir(d):
        if f.endswith(".py") and f != "demo.py":
            sh(f"cp {d}/{f} {wt}/{f}")
    run = lambda: subprocess.run(["/venv/bin/python", f"{d}/demo.py"], cwd=wt, env=env, stdout=subprocess.PIPE,
                                 stderr=subprocess.STDOUT, text=True, timeout=900)
    meta["ran"]["demo_without_change_exit"] = run().returncode
    meta["ran"]["patch_applies"] = sh(f"git -C {wt} apply {d}/patch.diff").returncode == 0
    r = run()
    meta["ran"]["demo_with_change_exit"] = r.returncode
    meta["ran"]["demo_with_change_tail"] = r.stdout.strip().splitlines()[-3:]
finally:
    sh(f"git -C /repo worktree remove --force {wt}")
txt = open(log).read()
rc = re.search(r"^rc=(\d+)", txt, re.M)
sigs = sorted({l.split()[-1] for l in txt.splitlines() if re.match(r"^\s+\d+ C\d\d/", l)})
meta["ran"]["check_cmd"] = f"tools/try_patch.sh {prop} patch.diff  (= VERIF_REPO=<worktree with patch> ./check {prop} --tier quick)"
meta["ran"]["check_exit"] = int(rc.group(1)) if rc else None
meta["ran"]["check_violation_signatures"] = sigs
meta["ran"]["suite_note"] = "pinned suite with the change: reported as passing by the change's author; my own run is pending (tools/suite_seeded.py) - the shared machine was too loaded to finish it in this session"
meta["caught_by"] = prop if rc and rc.group(1) == "1" else None
if note:
    meta["strengthened"] = note
json.dump(meta, open(f"{d}/meta.json", "w"), indent=1)
print(sid, "demo", meta["ran"]["demo_without_change_exit"], meta["ran"]["demo_with_change_exit"], "caught" if meta["caught_by"] else "MISSED", sigs[:2])
